"""Property -> obligations.  An obligation is
     fn:<Path>        a function (exec or proof) that Verus must verify without any error
     mod:<module>     every function Verus checked in that module
     clauses:<fn>     every `// @id` clause of that function (one obligation each) plus its body
   A property holds on a run iff every obligation it lists was checked by Verus on that run and discharged.
   Modular verification: a caller's proof is only as good as the contracts of its callees, so each property lists the
   functions on its dependency path, not just the one the postcondition sits on.
"""

# optfn: = an obligation only when the function exists in the source (a hand written impl replacing a derive)
ORDER = ['mod:m_order', 'fn:Version::cmp', 'fn:Version::partial_cmp', 'fn:Version::eq', 'fn:Version::is_prerelease', 'optfn:Identifier::cmp', 'optfn:Identifier::partial_cmp', 'optfn:Identifier::eq']
BOUNDS = ['mod:m_bound_spec', 'fn:Predicate::flip', 'fn:Bound::upper', 'fn:Bound::lower', 'fn:Bound::predicate', 'fn:Bound::cmp',
          'fn:Bound::partial_cmp', 'fn:BoundSet::new', 'fn:BoundSet::at_least', 'fn:BoundSet::at_most', 'fn:BoundSet::exact']
RANGE_SPEC = ['mod:m_range_spec']
SAT = ['fn:BoundSet::satisfies', 'fn:Range::satisfies', 'fn:Version::satisfies', 'fn:Range::any']
DESUGAR_FNS = ['caret_desugar', 'partial_desugar', 'tilde_desugar', 'hyphen_desugar'] + ['primitive_desugar_' + op for op in ('Exact', 'GreaterThan', 'GreaterThanEquals', 'LessThan', 'LessThanEquals')]
# the leaves of the range grammar (src/range.rs), whole functions under the assumed winnow contracts: every Partial the parser produces is
# read off the text by the reference reader g_partial and is well formed (numbers <= MAX_SAFE_INTEGER, normalised) -- proved, not pinned
RLEAVES = ['mod:m_winnow', 'mod:m_vspec', 'mod:m_rspec', 'fn:number', 'fn:identifier', 'fn:build', 'fn:pre_release', 'fn:extras', 'fn:Extras::values', 'fn:x_or_asterisk', 'fn:component', 'fn:operation', 'fn:tilde_gt', 'fn:logical_or', 'fn:partial_version']
# the comparator functions as whole functions: the text is read as (operator, partial) by the reference reader and the result satisfies the
# clause grid of that form (primitive_post / partial_post / tilde_post / caret_post)
RCOMPARATORS = ['fn:partial', 'fn:caret', 'fn:tilde', 'fn:primitive', 'fn:partial_desugar_whole', 'fn:caret_desugar_whole', 'fn:tilde_desugar_whole', 'fn:primitive_desugar_whole']
# how comparators are put together: hyphen ranges, the terminator look-ahead, garbage skipping, the blank separated list of one alternative
# (-> intersect_all) and the `||` separated list of alternatives (-> concatenation), as whole functions
RTOP = ['mod:m_rprops', 'fn:parser', 'fn:hyphen', 'fn:hyphen_desugar_whole', 'fn:garbage', 'fn:simple', 'fn:range', 'fn:bound_sets', 'fn:range_set', 'fn:Range::parse_str', 'fn:Range::from_str_lifted']
DESUGAR = RLEAVES + RCOMPARATORS + RTOP + ['clauses:' + f for f in DESUGAR_FNS] + ['fn:Partial::normalize', 'fn:Version::from@m_desugar', 'fn:Version::from@m_version', 'fn:number_check', 'fn:identifier_classify']
FROM_U64 = ['fn:Version::from@m_version']
# the representation invariant is ESTABLISHED by everything that builds a Range: the set-operation properties quantify over "ranges obtained
# from Range::parse or from the operations", so these are obligations of theirs too (not only of C01 / C06)
WF_EST = RLEAVES + ['clausere:#wf$', 'clausere:#small$', 'fn:intersect_all', 'fn:empty_range_desugar', 'fn:range_set_check', 'fn:Range::any', 'fn:Partial::normalize', 'fn:number_check', 'fn:BoundSet::intersect']

# the version grammar of src/lib.rs, whole functions, under the assumed winnow contracts
VGRAMMAR = ['mod:m_winnow', 'mod:m_vspec', 'fn:number', 'fn:version_core', 'fn:identifier', 'fn:build', 'fn:pre_release', 'fn:extras', 'fn:version', 'fn:Extras::values']
WINNOW = 'A15: the contracts of the winnow 0.6 combinators the grammar uses (contracts/winnow_shim.rs, written from winnow\'s documentation and source; nothing of winnow is verified): sequence tuples, alt, opt, preceded, terminated, separated, map, try_map, take, context, literal, take_while, space0, digit1, eof, AsChar::is_alphanum; error payloads, Cut/Incomplete and the input position after a failed parse are not modelled'
FMT = 'A16: the `write!` model of contracts/fmt_spec.rs: write!(f, "p0{}p1", a) appends p0 + disp(a) + p1 to the formatter when it returns Ok; `{}` prints a u64 as its decimal digits (dec_text: non-empty, all digits, reads back to the number), a String as its characters, a value of one of the crate\'s types as what its own Display impl (lifted, R9) is proved to write; R17: `for (i, x) in e.iter().enumerate()` is verified as a counter next to `for x in e.iter()`; a Vec holds at most usize::MAX elements'
TEXT_SHELL = 'every function of the range grammar below `range_set` is under contract as a whole function over ' + WINNOW + ': text -> (operator, partial) by a reference reader -> interval satisfying the clause grid; `simple` = the first form that ends at a terminator, else garbage; `range` = intersect_all of the blank separated comparators (conj_post), or `*` for an empty alternative; `bound_sets` = the concatenation over the `||` separated alternatives. `range_set` (fails exactly when no alternative is left) and Range::parse (R15/R16/R19) are under contract too. NOT assembled: the last step -- from these per-function contracts to ONE statement "rsat(parse(text), v) <=> npm admits v for this text" -- is not assembled: the property is decided at AST level for every operator / Partial value plus, separately, that the text is read into exactly those ASTs'
STD = 'std axioms A1-A12 of DESIGN.md 2.4 (Box, cmp::max/min for a lawful Ord, Vec/String ordering, derived impls, Clone, iterator idioms, Hash feed) as listed in coverage.trusted_base'

PROPS = {
    'C01': dict(
        title='Range satisfaction follows npm range semantics (AST level)',
        obligations=ORDER + BOUNDS + SAT + RANGE_SPEC + ['mod:m_npm', 'fn:BoundSet::intersect', 'fn:intersect_all'] + DESUGAR + ['fn:range_set_check', 'fn:lemma_c01_alternative', 'fn:lemma_c01_range', 'fn:empty_range_desugar', 'fn:lemma_c01_parse_failure', 'fn:lemma_shape_none_is_empty', 'fn:lemma_shape_c_repr', 'fn:lemma_shape_equiv_repr'] + ['fn:cover_plain', 'fn:cover_caret', 'fn:cover_tilde', 'fn:cover_hyphen'] + ['fn:cover_primitive_' + o for o in ('Exact', 'GreaterThan', 'GreaterThanEquals', 'LessThan', 'LessThanEquals')],
        assumptions=[TEXT_SHELL, STD, 'node-semver README / range.js 7.6.2 desugaring tables transcribed by hand into npm_spec.rs; `*` is `>=0.0.0` as the README states (node\'s internal `>=0.0.0 -> *` shortcut is not modelled)'],
        not_decided=['the assembly of the per-function contracts of the range grammar into one text-level statement'],
        witness='c01',
    ),
    'C02': dict(
        title='space joined comparators intersect, alternatives unite (AST level)',
        obligations=ORDER + BOUNDS + SAT + RANGE_SPEC + RLEAVES + RCOMPARATORS + RTOP + ['mod:m_npm', 'fn:BoundSet::intersect', 'fn:intersect_all', 'fn:empty_range_desugar', 'fn:lemma_c02_order_irrelevant', 'fn:lemma_c02_union', 'fn:lemma_c02_concat', 'fn:lemma_c01_alternative'],
        assumptions=[TEXT_SHELL, STD, '`bound_sets` flattens the per-alternative vectors in order (one std expression, not extracted)'],
        not_decided=['`a || b`: Range::parse holds the concatenation of the alternatives (contract of bound_sets) and a version satisfies / lies within the concatenation exactly when it does so for one alternative (lemma_c02_alternatives_unite); `a b`: the contract of `range` is conj_post over the blank separated comparators, about which lemma_c02_concat / _order_irrelevant speak. What is not assembled is the step from "the text a, the text b" to "the text a + blank + b" (that the reader of the joined text returns the joined lists)'],
        witness='c02',
    ),
    'C03': dict(
        title='prerelease gate',
        obligations=ORDER + BOUNDS + SAT + RANGE_SPEC + ['mod:m_npm', 'fn:BoundSet::intersect', 'fn:intersect_all'] + DESUGAR + ['fn:lemma_c03_release_unaffected', 'fn:lemma_c03_build_irrelevant', 'fn:lemma_c03_gate_needs_same_tuple', 'fn:lemma_c03_tagged_then_bounds_decide', 'fn:lemma_c03_one_alternative', 'fn:lemma_c01_alternative', 'fn:lemma_shape_c_repr', 'fn:lemma_shape_equiv_repr'],
        assumptions=[TEXT_SHELL, STD],
        not_decided=['that the comparator "as written" in the text is the one whose Partial reaches the desugaring closure'],
        witness='c03',
    ),
    'C04': dict(
        title='Version precedence is the SemVer total order; Eq, Ord, Hash agree',
        obligations=ORDER + ['fn:identifier_classify', 'fn:Version::hash', 'fn:lemma_eq_same_feed', 'fn:lemma_c04_total_order', 'fn:lemma_c04_build_irrelevant', 'fn:lemma_c04_eq_iff_equal', 'fn:lemma_c04_spec_examples'],
        assumptions=[STD, 'which identifier texts std parses as u64 (parse_spec is uninterpreted); the winnow call around the identifier() closure'],
        not_decided=['sort/min/max consistency is std\'s contract for a lawful Ord; lawfulness is what is proved'],
        witness='c04',
    ),
    'C05': dict(
        title='Version::parse accepts exactly the whole well-formed version strings, with the denoted fields',
        obligations=VGRAMMAR + ['fn:Version::parse_str', 'fn:Version::from_str_lifted', 'mod:m_vprops'],
        assumptions=[WINNOW, 'A13\': std `str::parse::<u64>` = optional `+`, ASCII digits, no overflow (ax_parse_u64_digits / ax_parse_u64_nondigit)', 'vstd: `str::len` is the byte length; `Default::default()` of a pair of Vecs is two empty Vecs',
                     'R15: the generic `S: AsRef<str>` entry is replaced by `&str`; R16: the payload of the returned SemverError is opaque (C17)',
                     'reading of the statement: the loose spellings C12\'s quantifier names (leading zeros, v/V prefix followed by blanks, a prerelease without its hyphen, leading / trailing blanks) belong to the accepted language; everything else must be `major.minor.patch[-prerelease][+build]`'],
        not_decided=['the error returned for a rejected text (C17)'],
        witness='c05',
    ),
    'C12': dict(
        title='printing a version and parsing it back returns the same version',
        obligations=VGRAMMAR + ['fn:Version::parse_str', 'mod:m_vprops', 'fn:Identifier::display_fmt', 'fn:Version::display_fmt', 'mod:m_c12'],
        assumptions=[WINNOW, FMT, 'A13\': std `str::parse::<u64>`; R15/R16 as for C05',
                     '`to_string()` is `Display::fmt` into an empty String (std); serde delegates to Display / parse (three-line impls, exercised by the stand-in with the serde feature)'],
        not_decided=['the serde / JSON half (bounded stand-in only)', 'the printed text must itself be within MAX_LENGTH: lemma_c12_round_trip carries that hypothesis; it fails for one class of inputs, see known finding'],
        witness='c12',
    ),
    'C06': dict(
        title='no panic / overflow / non-termination in the core',
        obligations=['allexec', 'clausere:#small$', 'clausere:#wf$', 'fn:lemma_c06_rwf_closed', 'fn:reach_bs_wf', 'fn:reach_overlap', 'mod:m_bound_spec', 'mod:m_range_spec', 'mod:m_order'],
        assumptions=[STD, 'Display for Range / BoundSet beyond reachability of unreachable!, miette, location() and the construction of the returned errors: not under contract', 'Display for Identifier / VersionDiff / Version: ' + FMT, 'Version::parse, Range::parse and every function of the two grammars are under contract over the assumed winnow contracts (no panic, no overflow, no failed winnow assertion for any input string): ' + WINNOW, 'representation invariant rwf / wf_partial / component bounds as preconditions (established by every constructor under contract)'],
        not_decided=['the construction of the error a failed parse returns (char_indices, pointer difference) and its accessors: bounded stand-in only', 'error accessors and diagnostics', 'roughly linear time (no cost model)'],
        witness='c06',
    ),
    'C07': dict(
        title='intersect is set intersection',
        obligations=WF_EST + SAT + ORDER + BOUNDS + RANGE_SPEC + ['fn:BoundSet::intersect', 'fn:Range::intersect', 'fn:lemma_gate_intersect', 'fn:lemma_c07_commutes', 'fn:lemma_c07_idempotent', 'fn:lemma_c07_release_sat', 'fn:lemma_c07_prerelease'],
        assumptions=[STD],
        not_decided=[],
        witness='c07',
    ),
    'C08': dict(
        title='difference is set difference',
        obligations=WF_EST + SAT + ORDER + BOUNDS + RANGE_SPEC + ['fn:BoundSet::intersect', 'fn:BoundSet::difference', 'fn:Range::difference', 'fn:Range::intersect', 'fn:lemma_c08_partition', 'fn:lemma_c08_release_sat', 'fn:lemma_c08_disjoint_from_b'],
        assumptions=[STD],
        not_decided=['prerelease membership of a \\ b is decided against the relation rdiff_post (bounds of a, outside the bounds of b, gate of a); that this relation is the intended reading for prereleases is taken from the property text'],
        witness='c08',
    ),
    'C09': dict(
        title='allows_any is overlap',
        obligations=WF_EST + SAT + ORDER + BOUNDS + RANGE_SPEC + ['fn:BoundSet::allows_any', 'fn:Range::allows_any', 'fn:BoundSet::intersect', 'fn:Range::intersect', 'fn:lemma_c09_symmetric', 'fn:lemma_c09_disjoint', 'fn:lemma_c09_touching', 'fn:lemma_c09_common_version'],
        assumptions=[STD],
        not_decided=[],
        witness='c09',
    ),
    'C10': dict(
        title='allows_all guarantees containment',
        obligations=WF_EST + SAT + ORDER + BOUNDS + RANGE_SPEC + ['fn:BoundSet::allows_all', 'fn:Range::allows_all', 'fn:BoundSet::allows_any', 'fn:Range::allows_any', 'fn:BoundSet::intersect', 'fn:BoundSet::difference', 'fn:Range::difference',
                                                   'fn:lemma_c10_contained', 'fn:lemma_c10_implies_any', 'fn:lemma_c10_reflexive', 'fn:lemma_c10_difference_none'],
        assumptions=[STD],
        not_decided=[],
        witness='c10',
    ),
    'C11': dict(
        title='min_version is the least satisfying version',
        obligations=WF_EST + ORDER + BOUNDS + RANGE_SPEC + SAT + ['fn:BoundSet::min_version', 'fn:Range::min_version'] + FROM_U64,
        assumptions=[STD, 'no lower bound has patch == u64::MAX (rpatch_ok; parsed components are <= MAX_SAFE_INTEGER)'],
        not_decided=[],
        witness='c11',
    ),
    'C14': dict(
        title='max_satisfying / min_satisfying',
        obligations=WF_EST + ORDER + BOUNDS + RANGE_SPEC + SAT + ['fn:Range::max_satisfying', 'fn:Range::min_satisfying', 'fn:lemma_c14_order_independent', 'fn:lemma_c14_order_independent_min'],
        assumptions=[STD, 'A8: std contract of slice.iter().filter(p).max()/min() (stub whose body is the original expression)'],
        not_decided=['the result is a reference into the slice: proved equal by value to a maximal / minimal satisfying element (last maximal, first minimal), reference identity is not expressible'],
        witness='c14',
    ),
    'C15': dict(
        title='set algebra identities across compositions',
        obligations=WF_EST + SAT + ORDER + BOUNDS + RANGE_SPEC + ['fn:BoundSet::intersect', 'fn:BoundSet::difference', 'fn:Range::intersect', 'fn:Range::difference',
                                                   'fn:BoundSet::display_fmt', 'fn:Range::display_fmt', 'fn:Version::display_fmt', 'fn:Identifier::display_fmt', 'fn:lemma_c15_commutative', 'fn:lemma_c15_associative', 'fn:lemma_c15_idempotent', 'fn:lemma_c15_a_minus_a', 'fn:lemma_c15_diff_disjoint', 'fn:lemma_c15_partition', 'fn:lemma_c15_double_difference'],
        assumptions=[STD],
        not_decided=['results are printable: Display for Range / BoundSet is proved to return normally on every well formed range and to write the text `alts_text` (A16); that this text parses back to the same set is C13 (not claimed; bounded stand-in)', 'for prereleases the identities are proved over `within` (bounds) and, where the property says so, over satisfaction with the opt-in gate the operands carry; identities between printed forms are not claimed'],
        witness='c15',
    ),
    'C16': dict(
        title='Version::diff',
        obligations=ORDER + ['fn:VersionDiff::display_fmt', 'fn:Version::diff', 'fn:lemma_diff_symmetric', 'fn:lemma_diff_none_iff_equal', 'fn:lemma_diff_prerelease', 'fn:lemma_c16_build_irrelevant', 'fn:lemma_c16_most_significant'],
        assumptions=[STD, FMT + ' (the seven release type names are proved to be what Display for VersionDiff writes)', 'diff_spec is node-semver 7.6.2 functions/diff.js transcribed by hand (7.7.0 changed prerelease -> release results such as 1.1.0-pre vs 1.2.1; the crate ports 7.6.2, the property names the documented special cases); lemma_c16_most_significant restates it independently of the branch order'],
        not_decided=[],
        witness='c16',
    ),
    'C18': dict(
        title='tuple conversions',
        obligations=FROM_U64 + VGRAMMAR + ['fn:Version::parse_str', 'fn:Identifier::display_fmt', 'fn:Version::display_fmt', 'mod:m_vprops', 'mod:m_c12'],   # + the Kani harnesses, see tools/kani_c18.py
        assumptions=[WINNOW, FMT, 'the text half (prints as `a.b.c` / `a.b.c-d`, and that text parses to the same fields) is proved for the value `Version::from` is proved to build (lemma_c18_*), over the contracts of Display and Version::parse; for the nine other integer types the link from the tuple to that value is the Kani harness of that type'],
        not_decided=['`to_string()` = Display::fmt into an empty String (std)'],
        witness='c18',
    ),
}

NOT_APPLICABLE = {
    'C13': 'print -> parse round trip of Range: since session 4 both ends are under contract -- Display for BoundSet / Range is proved to write `alts_text(range)` (A16), and every function of the range grammar is proved against a reference reader (A15) -- but the chain between them is not built: the contracts of `range` / `bound_sets` are relational over the lists winnow returns, so one needs (a) that those lists are determined by the text (a functional reader of a whole range text), (b) that this reader, on the printed text of an interval of each of the ten shapes, returns the comparators that were printed, (c) that their intervals have the cuts of the original. None of the three is done, so the property is not claimed; the bounded stand-in checks print -> parse -> same set for the results of the set operations on every run of C07 C08 C15',
    'C17': 'error input()/offset()/location() depend on where winnow leaves the input AFTER A FAILED PARSE and on which combinator fails first -- the assumed winnow contracts (A15) describe accepted input and rejection, not the error value or the input position on failure -- and on str slicing and a pointer difference in the code that builds the error, which rewrite R16 drops from the two parse functions; location() is byte arithmetic on str that Verus cannot read. The bounded stand-in of C06 calls every accessor of every returned error (panic freedom only)',
}
