#![feature(allocator_api)]
#![allow(unused_imports, dead_code, unused_variables, unused_mut, non_snake_case, suspicious_double_ref_op)]
use vstd::prelude::*;
use vstd::string::*;
use core::marker::PhantomData;
use vstd::std_specs::cmp::*;
use vstd::std_specs::convert::*;
use std::cmp::{self, Ord, Ordering, PartialOrd};
use std::num::ParseIntError;

verus! {

// ===================== trusted std axioms =====================
pub assume_specification<T: ?Sized, A: core::alloc::Allocator>[ <Box<T, A> as AsRef<T>>::as_ref ](b: &Box<T, A>) -> (r: &T)
    ensures r == &**b;

pub assume_specification<T: Ord>[ std::cmp::max ](a: T, b: T) -> (r: T)
    ensures T::obeys_cmp_spec() ==> r == (if a.cmp_spec(&b) == Ordering::Greater { a } else { b });
pub assume_specification<T: Ord>[ std::cmp::min ](a: T, b: T) -> (r: T)
    ensures T::obeys_cmp_spec() ==> r == (if a.cmp_spec(&b) == Ordering::Greater { b } else { a });

pub assume_specification<T: ?Sized + PartialOrd, A: core::alloc::Allocator>[ <Box<T, A> as PartialOrd>::le ](a: &Box<T, A>, b: &Box<T, A>) -> (r: bool)
    ensures T::obeys_partial_cmp_spec() ==> r == (PartialOrdSpec::partial_cmp_spec(&**a, &**b) matches Some(o) && o != Ordering::Greater);
pub assume_specification<T: ?Sized + PartialOrd, A: core::alloc::Allocator>[ <Box<T, A> as PartialOrd>::lt ](a: &Box<T, A>, b: &Box<T, A>) -> (r: bool)
    ensures T::obeys_partial_cmp_spec() ==> r == (PartialOrdSpec::partial_cmp_spec(&**a, &**b) == Some(Ordering::Less));
pub assume_specification<T: ?Sized + PartialEq, A: core::alloc::Allocator>[ <Box<T, A> as PartialEq>::eq ](a: &Box<T, A>, b: &Box<T, A>) -> (r: bool)
    ensures T::obeys_eq_spec() ==> r == PartialEqSpec::eq_spec(&**a, &**b);
// the rest of Box's comparison surface (A1: Box<T> compares as T does), so that `>`, `>=`, `!=`, `.cmp()`, `.partial_cmp()` on boxed bounds
// -- what a refactoring of `<` / `<=` / `==` may turn them into -- are within reach
pub assume_specification<T: ?Sized + PartialOrd, A: core::alloc::Allocator>[ <Box<T, A> as PartialOrd>::ge ](a: &Box<T, A>, b: &Box<T, A>) -> (r: bool)
    ensures T::obeys_partial_cmp_spec() ==> r == (PartialOrdSpec::partial_cmp_spec(&**a, &**b) matches Some(o) && o != Ordering::Less);
pub assume_specification<T: ?Sized + PartialOrd, A: core::alloc::Allocator>[ <Box<T, A> as PartialOrd>::gt ](a: &Box<T, A>, b: &Box<T, A>) -> (r: bool)
    ensures T::obeys_partial_cmp_spec() ==> r == (PartialOrdSpec::partial_cmp_spec(&**a, &**b) == Some(Ordering::Greater));
pub assume_specification<T: ?Sized + PartialOrd, A: core::alloc::Allocator>[ <Box<T, A> as PartialOrd>::partial_cmp ](a: &Box<T, A>, b: &Box<T, A>) -> (r: Option<Ordering>)
    ensures T::obeys_partial_cmp_spec() ==> r == PartialOrdSpec::partial_cmp_spec(&**a, &**b);
pub assume_specification<T: ?Sized + Ord, A: core::alloc::Allocator>[ <Box<T, A> as Ord>::cmp ](a: &Box<T, A>, b: &Box<T, A>) -> (r: Ordering)
    ensures T::obeys_cmp_spec() ==> r == OrdSpec::cmp_spec(&**a, &**b);
pub assume_specification<T: ?Sized + PartialEq, A: core::alloc::Allocator>[ <Box<T, A> as PartialEq>::ne ](a: &Box<T, A>, b: &Box<T, A>) -> (r: bool)
    ensures T::obeys_eq_spec() ==> r == !PartialEqSpec::eq_spec(&**a, &**b);

// Vec<T>: Ord is lexicographic (std docs)
pub open spec fn vec_lex<T: Ord>(a: Seq<T>, b: Seq<T>) -> Ordering
    decreases a.len()
{
    if a.len() == 0 && b.len() == 0 { Ordering::Equal }
    else if a.len() == 0 { Ordering::Less }
    else if b.len() == 0 { Ordering::Greater }
    else if a[0].cmp_spec(&b[0]) != Ordering::Equal { a[0].cmp_spec(&b[0]) }
    else { vec_lex::<T>(a.drop_first(), b.drop_first()) }
}
pub assume_specification<T: Ord, A: core::alloc::Allocator>[ <Vec<T, A> as Ord>::cmp ](a: &Vec<T, A>, b: &Vec<T, A>) -> (r: Ordering)
    ensures T::obeys_cmp_spec() ==> r == vec_lex::<T>(a@, b@);

// A12: `Ordering == Ordering` is structural equality
pub assume_specification[ <Ordering as PartialEq>::eq ](a: &Ordering, b: &Ordering) -> (r: bool) ensures r == (*a == *b);
// A5: `String`'s Ord / Eq are lexicographic order / equality of the code point sequence (UTF-8 is order preserving); only reached
// when Identifier's ordering is written by hand instead of derived
pub assume_specification[ <String as Ord>::cmp ](a: &String, b: &String) -> (r: Ordering)
    ensures r == str_cmp(a@, b@);
// small pure std functions a refactor is likely to use (documented std behaviour)
pub assume_specification<T, U>[ Option::<T>::and::<U> ](a: Option<T>, b: Option<U>) -> (r: Option<U>)
    ensures r == (if a is Some { b } else { None::<U> });
pub assume_specification[ Ordering::then ](a: Ordering, b: Ordering) -> (r: Ordering)
    ensures r == (if a == Ordering::Equal { b } else { a });
