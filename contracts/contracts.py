"""Contracts for the functions of /repo, keyed by item path.  Pure data (strings spliced in by tools/gen.py).

(P) = postcondition taken from the property statement, (I) = internal contract.  Every `ensures` clause that is an
obligation of its own carries a trailing `// @<clause-id>` marker on its line; tools/gen.py maps Verus diagnostics
("failed this postcondition" spans) back to these ids.
"""
import re


# ---------------------------------------------------------------------------------------------- Version (src/lib.rs)
VERSION = {
    'eq': dict(entry='proof { lemma_pre_eq(self.pre_release@, other.pre_release@); lemma_pre_eq(other.pre_release@, self.pre_release@); lemma_pre_flip(self.pre_release@, other.pre_release@); }'),   # either operand order
    'partial_cmp': dict(),
    'cmp': dict(entry='proof { lemma_vec_lex_is_pre_cmp(self.pre_release@, other.pre_release@); lemma_vec_lex_is_pre_cmp(other.pre_release@, self.pre_release@); lemma_pre_flip(self.pre_release@, other.pre_release@); }'),   # either operand order
    'is_prerelease': dict(ret='r', contract='    ensures r == (self.pre_release@.len() > 0)'),
    'diff': dict(ret='r', contract='    ensures r == diff_spec(key(*self), key(*other)),', entry='broadcast use group_k_order;'),
    'hash': dict(contract='    ensures fed(final(state)) == fed(old(state)) + hash_feed(key(*self)),'),
    'satisfies': dict(ret='r', contract='    requires rwf(*range),\n    ensures r == rsat(*range, key(*self)),'),
}

# ---------------------------------------------------------------------------------------------- Bound / Predicate
PREDICATE = {
    'flip': dict(ret='r', contract='    ensures r == (match self { Predicate::Excluding(v) => Predicate::Including(v), Predicate::Including(v) => Predicate::Excluding(v), Predicate::Unbounded => Predicate::Unbounded })'),
}
BOUND = {
    'upper': dict(ret='r', contract='    ensures r == Bound::Upper(Predicate::Unbounded)'),
    'lower': dict(ret='r', contract='    ensures r == Bound::Lower(Predicate::Unbounded)'),
    'predicate': dict(ret='r', contract='    ensures r == (match self { Bound::Lower(p) => p, Bound::Upper(p) => p })'),
}
BOUND_ORD = {
    'cmp': dict(entry='broadcast use group_k_order; proof { reveal(cut_cmp); }'),
}

CUT4 = 'lemma_cut4(cut_of(*self.lower), cut_of(*self.upper), cut_of(*other.lower), cut_of(*other.upper));'

BOUNDSET = {}
BOUNDSET['new'] = dict(ret='r', contract='''    requires is_lower(lower), is_upper(upper),
    ensures (r is Some) <==> cut_cmp(cut_of(lower), cut_of(upper)) == Ordering::Less,
            r matches Some(bs) ==> *bs.lower == lower && *bs.upper == upper,''',
    entry='broadcast use group_k_order; proof { reveal(cut_cmp); }')
BOUNDSET['at_least'] = dict(ret='r', contract='    ensures r matches Some(bs) && *bs.lower == Bound::Lower(p) && *bs.upper == Bound::Upper(Predicate::Unbounded),', entry='proof { reveal(cut_cmp); }')
BOUNDSET['at_most'] = dict(ret='r', contract='    ensures r matches Some(bs) && *bs.lower == Bound::Lower(Predicate::Unbounded) && *bs.upper == Bound::Upper(p),', entry='proof { reveal(cut_cmp); }')
BOUNDSET['exact'] = dict(ret='r', contract='    ensures r matches Some(bs) && *bs.lower == Bound::Lower(Predicate::Including(version)) && *bs.upper == Bound::Upper(Predicate::Including(version)),', entry='broadcast use group_k_order; proof { reveal(cut_cmp); }')
BOUNDSET['satisfies'] = dict(ret='r', contract='''    requires bs_wf(*self),
    ensures r == sat(*self, key(*version)),''', entry='broadcast use group_k_order;')
BOUNDSET['allows_all'] = dict(ret='r', contract='''    requires bs_wf(*self), bs_wf(*other),
    ensures r == ballows_all(*self, *other),''', entry='proof { ' + CUT4 + ' }')
BOUNDSET['allows_any'] = dict(ret='r', contract='''    requires bs_wf(*self), bs_wf(*other),
    ensures r == boverlap(*self, *other),''', entry='proof { ' + CUT4 + ' }')
BOUNDSET['intersect'] = dict(ret='r', contract='''    requires bs_wf(*self), bs_wf(*other),
    ensures binter_post(*self, *other, r),''',
    entry='''proof {
        let cl = cut_of(*self.lower); let cu = cut_of(*self.upper); let ol = cut_of(*other.lower); let ou = cut_of(*other.upper);
        lemma_cut4(cl, cu, ol, ou);
        if !boverlap(*self, *other) { assert forall|v: VKey| #![trigger within(*self, v), within(*other, v)] !(within(*self, v) && within(*other, v)) by { lemma_boverlap_none(*self, *other, v); } }
        // whichever operand's bound is kept: a cut that is one of the two and not below (above) either bounds exactly what both bound
        assert forall|m: Cut, v: VKey| #![trigger above(m, v)] (m == cl || m == ol) && cut_cmp(m, cl) != Ordering::Less && cut_cmp(m, ol) != Ordering::Less implies ((above(cl, v) && above(ol, v)) <==> above(m, v)) by {
            if above(m, v) { lemma_cut_mono_above(cl, m, v); lemma_cut_mono_above(ol, m, v); }
        }
        assert forall|m: Cut, v: VKey| #![trigger below(m, v)] (m == cu || m == ou) && cut_cmp(m, cu) != Ordering::Greater && cut_cmp(m, ou) != Ordering::Greater implies ((below(cu, v) && below(ou, v)) <==> below(m, v)) by {
            if below(m, v) { lemma_cut_mono_below(m, cu, v); lemma_cut_mono_below(m, ou, v); }
        }
    }''')
BOUNDSET['difference'] = dict(ret='r', contract='''    requires bs_wf(*self), bs_wf(*other),
    ensures bdiff_post(*self, *other, r),''', entry='''proof { ''' + CUT4 + '''
        lemma_cut_inf(cut_of(*self.lower)); lemma_cut_inf(cut_of(*self.upper)); lemma_cut_inf(cut_of(*other.lower)); lemma_cut_inf(cut_of(*other.upper));
        assert forall|a: Bound, b: Bound| #![trigger bound_eq(a, b)] bound_eq(a, b) <==> (cut_cmp(cut_of(a), cut_of(b)) == Ordering::Equal && is_lower(a) == is_lower(b)) by { lemma_bound_eq_cut(a, b); }
    }''', closures=[('.map(|f| vec![f])', '.map(|f: BoundSet| -> (rr: Vec<BoundSet>) ensures rr@.len() == 1 && rr@[0] == f { vec![f] })')])
BOUNDSET['min_version'] = dict(ret='r', contract='''    requires bs_wf(*self), bs_small(*self),
    ensures minv_post(*self, r),''',
    entry='broadcast use group_k_order;',
    after=[('            Bound::Upper(_) => return None,\n        };', '''proof {
            let ll = cut_of(*self.lower); let uu = cut_of(*self.upper);
            let f = key(first);
            reveal(cut_cmp);
            assert forall|s: Seq<Identifier>| #![trigger s.len()] s.len() == 1 && s[0] == Identifier::Numeric(0) implies s == pre0() by { assert(s =~= pre0()); }
            assert forall|k: VKey| #![trigger above(ll, k)] wfk0(k) && above(ll, k) implies kcmp(f, k) != Ordering::Greater by {
                if lower_excl(*self.lower) { let kv = key(bound_version(*self.lower)->0); if kv.pre.len() > 0 { lemma_succ_pre(kv, k); } else { lemma_succ_release(kv, k); } }
                if *self.lower == Bound::Lower(Predicate::Unbounded) { lemma_least_key(k); }
            }
            if lower_excl(*self.lower) && key(bound_version(*self.lower)->0).pre.len() > 0 { lemma_push0_greater(key(bound_version(*self.lower)->0).pre); }
            assert(above(ll, f));
            assert forall|a: VKey, k: VKey| #![trigger kcmp(a, k), below(uu, k)] kcmp(a, k) != Ordering::Greater && below(uu, k) implies below(uu, a) by { lemma_below_down(uu, a, k); }
        }''')])

# ---------------------------------------------------------------------------------------------- Range
RANGE = {}
RANGE['any'] = dict(ret='r', contract='    ensures rwf(r), rsmall(r), r.0@.len() == 1, forall|k: VKey| rwithin(r, k),\n            forall|k: VKey| #![trigger rsat(r, k)] rsat(r, k) == (k.pre.len() == 0),   // `*`: every release, no prerelease', entry='proof { reveal(cut_cmp); }')
RANGE['satisfies'] = dict(ret='r', contract='''    requires rwf(*self),
    ensures r == rsat(*self, key(*version)),''', entry='broadcast use g_any;',
    loops=[(0, 'it0', 'rwf(*self), !any_sat(self.0@, it0.index@ as int, key(*version)),')])
RANGE['allows_any'] = dict(ret='r', contract='''    requires rwf(*self), rwf(*other),
    ensures r == roverlap(*self, *other),''',
    loops=[(0, 'it0', 'rwf(*self), rwf(*other), forall|i: int, j: int| 0 <= i < it0.index@ && 0 <= j < other.0@.len() ==> !boverlap(#[trigger] self.0@[i], #[trigger] other.0@[j]),'),
           (1, 'it1', 'rwf(*self), rwf(*other), bs_wf(*this), 0 <= it0.index@ < self.0@.len(), *this == self.0@[it0.index@ as int], forall|i: int, j: int| 0 <= i < it0.index@ && 0 <= j < other.0@.len() ==> !boverlap(#[trigger] self.0@[i], #[trigger] other.0@[j]), forall|j: int| 0 <= j < it1.index@ ==> !boverlap(*this, #[trigger] other.0@[j]),')])
RANGE['allows_all'] = dict(ret='r', contract='''    requires rwf(*self), rwf(*other),
    ensures r == rallows_all(*self, *other),''',
    loops=[(0, 'it0', 'rwf(*self), rwf(*other), forall|i: int, j: int| 0 <= i < it0.index@ && 0 <= j < other.0@.len() ==> !ballows_all(#[trigger] self.0@[i], #[trigger] other.0@[j]),'),
           (1, 'it1', 'rwf(*self), rwf(*other), bs_wf(*this), 0 <= it0.index@ < self.0@.len(), *this == self.0@[it0.index@ as int], forall|i: int, j: int| 0 <= i < it0.index@ && 0 <= j < other.0@.len() ==> !ballows_all(#[trigger] self.0@[i], #[trigger] other.0@[j]), forall|j: int| 0 <= j < it1.index@ ==> !ballows_all(*this, #[trigger] other.0@[j]),')])
INV_OUT = '''rwf(*self), rwf(*other), swf(sets@), (rsmall(*self) && rsmall(*other)) ==> ssmall(sets@),
        (sets@.len() > 0) == (exists|i: int, j: int| 0 <= i < it0.index@ && 0 <= j < other.0@.len() && boverlap(#[trigger] self.0@[i], #[trigger] other.0@[j])),
        forall|v: VKey| #![trigger any_within(sets@, sets@.len() as int, v)] #![trigger rwithin(*other, v)] any_within(sets@, sets@.len() as int, v) <==> (any_within(self.0@, it0.index@ as int, v) && rwithin(*other, v)),
        forall|v: VKey| #![trigger any_sat(sets@, sets@.len() as int, v)] any_sat(sets@, sets@.len() as int, v) <==> any_pair_sat(self.0@, it0.index@ as int, other.0@, 0, v),'''
INV_IN = '''rwf(*self), rwf(*other), swf(sets@), (rsmall(*self) && rsmall(*other)) ==> ssmall(sets@), bs_wf(*lefty), 0 <= it0.index@ < self.0@.len(), *lefty == self.0@[it0.index@ as int],
        (sets@.len() > 0) == ((exists|i: int, j: int| 0 <= i < it0.index@ && 0 <= j < other.0@.len() && boverlap(#[trigger] self.0@[i], #[trigger] other.0@[j]))
            || (exists|j: int| 0 <= j < it1.index@ && boverlap(*lefty, #[trigger] other.0@[j]))),
        forall|v: VKey| #![trigger any_within(sets@, sets@.len() as int, v)] #![trigger rwithin(*other, v)] any_within(sets@, sets@.len() as int, v) <==>
            ((any_within(self.0@, it0.index@ as int, v) && rwithin(*other, v)) || (within(*lefty, v) && any_within(other.0@, it1.index@ as int, v))),
        forall|v: VKey| #![trigger any_sat(sets@, sets@.len() as int, v)] any_sat(sets@, sets@.len() as int, v) <==> any_pair_sat(self.0@, it0.index@ as int, other.0@, it1.index@ as int, v),'''
RANGE['intersect'] = dict(ret='r', contract='''    requires rwf(*self), rwf(*other),
    ensures rinter_post(*self, *other, r),''',
    entry='''broadcast use g_any;
    proof { assert forall|v: VKey| !any_pair_sat(self.0@, 0, other.0@, 0, v) by { lemma_any_pair_sat_zero(self.0@, other.0@, v); } }''',
    loops=[(0, 'it0', INV_OUT), (1, 'it1', INV_IN)],
    loop_entry=[(1, 'let ghost old_sets = sets@;')],
    loop_end=[(1, '''proof {
        let n0 = it0.index@ as int; let n1 = it1.index@ as int;
        assert(*righty == other.0@[n1]);
        if sets@.len() > old_sets.len() { assert(sets@ =~= old_sets.push(sets@[old_sets.len() as int])); }
        assert forall|v: VKey| #![trigger any_within(sets@, sets@.len() as int, v)] #![trigger rwithin(*other, v)] any_within(sets@, sets@.len() as int, v) <==>
            ((any_within(self.0@, n0, v) && rwithin(*other, v)) || (within(*lefty, v) && any_within(other.0@, n1 + 1, v))) by {
            lemma_any_within_step(other.0@, n1, v);
            if sets@.len() > old_sets.len() { lemma_any_within_push(old_sets, sets@[old_sets.len() as int], v); }
            else { lemma_boverlap_none(*lefty, *righty, v); }
        }
        assert forall|v: VKey| #![trigger any_sat(sets@, sets@.len() as int, v)] any_sat(sets@, sets@.len() as int, v) <==> any_pair_sat(self.0@, n0, other.0@, n1 + 1, v) by {
            lemma_any_pair_sat_step(self.0@, n0, other.0@, n1, v);
            if sets@.len() > old_sets.len() {
                let b = sets@[old_sets.len() as int];
                lemma_any_sat_push(old_sets, b, v);
                if within(*lefty, v) && within(*righty, v) { lemma_gate_intersect(*lefty, *righty, b, v); }
            } else { lemma_boverlap_none(*lefty, *righty, v); }
        }
    }'''), (0, '''proof {
        let n0 = it0.index@ as int;
        assert forall|v: VKey| #![trigger any_sat(sets@, sets@.len() as int, v)] any_sat(sets@, sets@.len() as int, v) <==> any_pair_sat(self.0@, n0 + 1, other.0@, 0, v) by {
            lemma_any_pair_sat_row(self.0@, n0, other.0@, v);
        }
    }''')])
DINV0 = '''rwf(*self), rwf(*other), swf(predicates@), (rsmall(*self) && rsmall(*other)) ==> ssmall(predicates@),
        it0.index@ == 0 ==> predicates@.len() == 0,
        (self.0@.len() == 1 && other.0@.len() == 1 && it0.index@ == 1) ==> ((predicates@.len() == 0) <==> bdiff_none(self.0@[0], other.0@[0])),
        forall|v: VKey| #![trigger any_within(predicates@, predicates@.len() as int, v)] #![trigger rwithin(*other, v)] any_within(predicates@, predicates@.len() as int, v) <==> (any_within(self.0@, it0.index@ as int, v) && !rwithin(*other, v)),'''
DINV1 = '''rwf(*self), rwf(*other), swf(predicates@), swf(remainders@), (rsmall(*self) && rsmall(*other)) ==> (ssmall(predicates@) && ssmall(remainders@)), bs_wf(*lefty), 0 <= it0.index@ < self.0@.len(), *lefty == self.0@[it0.index@ as int],
        it0.index@ == 0 ==> predicates@.len() == 0,
        it1.index@ == 0 ==> remainders@.len() == 1 && remainders@[0] == *lefty,
        (other.0@.len() == 1 && it1.index@ == 1) ==> ((remainders@.len() == 0) <==> bdiff_none(*lefty, other.0@[0])),
        forall|v: VKey| #![trigger any_within(predicates@, predicates@.len() as int, v)] #![trigger rwithin(*other, v)] any_within(predicates@, predicates@.len() as int, v) <==> (any_within(self.0@, it0.index@ as int, v) && !rwithin(*other, v)),
        forall|v: VKey| #![trigger any_within(remainders@, remainders@.len() as int, v)] any_within(remainders@, remainders@.len() as int, v) <==> (within(*lefty, v) && !any_within(other.0@, it1.index@ as int, v)),'''
DINV2 = '''rwf(*other), swf(remainders@), swf(next@), bs_wf(*righty), (ssmall(remainders@) && bs_small(*righty)) ==> ssmall(next@),
        it2.index@ == 0 ==> next@.len() == 0,
        (remainders@.len() == 1 && it2.index@ == 1) ==> ((next@.len() == 0) <==> bdiff_none(remainders@[0], *righty)),
        forall|v: VKey| #![trigger any_within(next@, next@.len() as int, v)] any_within(next@, next@.len() as int, v) <==> (any_within(remainders@, it2.index@ as int, v) && !within(*righty, v)),'''
RANGE['difference'] = dict(ret='r', contract='''    requires rwf(*self), rwf(*other),
    ensures rdiff_post(*self, *other, r),''',
    entry='broadcast use g_any, lemma_any_within_concat;',
    loops=[(0, 'it0', DINV0), (1, 'it1', DINV1), (2, 'it2', DINV2)],
    loop_entry=[(2, 'let ghost old_next = next@; let ghost mut rgv: Option<Vec<BoundSet>> = None;'), (0, 'let ghost old_preds = predicates@;')],
    after=[('let mut remainders = vec![lefty.clone()];', '''proof { assert(remainders@.len() == 1 && remainders@[0] == *lefty);
            assert forall|v: VKey| #![trigger any_within(remainders@, remainders@.len() as int, v)] any_within(remainders@, remainders@.len() as int, v) <==> (within(*lefty, v) && !any_within(other.0@, 0, v)) by { lemma_any_within_step(remainders@, 0, v); } }'''),
           ('if let Some(mut range) = piece.difference(righty) {', 'proof { rgv = Some(range); }'),
           ('remainders = next;', '''proof {
                assert forall|v: VKey| #![trigger any_within(remainders@, remainders@.len() as int, v)] any_within(remainders@, remainders@.len() as int, v) <==> (within(*lefty, v) && !any_within(other.0@, it1.index@ as int + 1, v)) by {
                    lemma_any_within_step(other.0@, it1.index@ as int, v);
                }
            }'''),
           ],
    before=[('predicates.append(&mut remainders)', 'let ghost rem_final = remainders@;')],
    loop_end=[(0, '''proof {
            assert(predicates@ =~= old_preds + rem_final);
            lemma_swf_concat(old_preds, rem_final);
            if rsmall(*self) && rsmall(*other) { lemma_ssmall_concat(old_preds, rem_final); }
            assert forall|v: VKey| #![trigger any_within(predicates@, predicates@.len() as int, v)] #![trigger rwithin(*other, v)] any_within(predicates@, predicates@.len() as int, v) <==> (any_within(self.0@, it0.index@ as int + 1, v) && !rwithin(*other, v)) by {
                lemma_any_within_step(self.0@, it0.index@ as int, v);
                lemma_any_within_concat(old_preds, rem_final, v);
            }
        }'''), (2, '''proof {
            let added: Seq<BoundSet> = match rgv { Some(x) => x@, None => Seq::empty() };
            assert(next@ =~= old_next + added);
            if rgv is Some { lemma_swf_concat(old_next, added); if ssmall(remainders@) && bs_small(*righty) { lemma_ssmall_concat(old_next, added); } }
            assert forall|v: VKey| #![trigger any_within(next@, next@.len() as int, v)] any_within(next@, next@.len() as int, v) <==> (any_within(remainders@, it2.index@ as int + 1, v) && !within(*righty, v)) by {
                lemma_any_within_step(remainders@, it2.index@ as int, v);
                lemma_any_within_concat(old_next, added, v);
                match rgv {
                    Some(x) => { lemma_bdiff_pointwise(*piece, *righty, rgv, v); },
                    None => { if bdiff_post(*piece, *righty, None) { lemma_bdiff_pointwise(*piece, *righty, None, v); } lemma_any_within_zero(added, v); },
                }
            }
        }'''),
      ])
MINV = '''match min {
            Some(m) => any_sat(self.0@, it0.index@ as int, key(m)) && forall|k: VKey| #![trigger any_sat(self.0@, it0.index@ as int, k)] wfk0(k) && any_sat(self.0@, it0.index@ as int, k) ==> kcmp(key(m), k) != Ordering::Greater,
            None => forall|k: VKey| #![trigger any_sat(self.0@, it0.index@ as int, k)] wfk0(k) ==> !any_sat(self.0@, it0.index@ as int, k),
        }'''
RANGE['min_version'] = dict(ret='r', contract='''    requires rwf(*self), rsmall(*self),
    ensures rminv_post(*self, r),''', entry='broadcast use g_any, group_k_order;',
    loops=[(0, 'it0', 'rwf(*self), rsmall(*self), ' + MINV + ',')],
    loop_entry=[(0, 'let ghost old_min = min; let ghost mut cand: Option<Version> = None;')],
    after=[('if let Some(candidate) = range.min_version() {', 'proof { cand = Some(candidate); }')],
    loop_end=[(0, '''proof {
            let n = it0.index@ as int;
            assert(*range == self.0@[n]);
            assert(minv_post(*range, cand));
            assert forall|k: VKey| #![trigger any_sat(self.0@, n + 1, k)] any_sat(self.0@, n + 1, k) == (any_sat(self.0@, n, k) || sat(self.0@[n], k)) by { lemma_any_sat_step(self.0@, n, k); }
            let new_min = min;
            match new_min {
                Some(m) => {
                    lemma_any_sat_step(self.0@, n, key(m));
                    assert forall|k: VKey| #![trigger any_sat(self.0@, n + 1, k)] wfk0(k) && any_sat(self.0@, n + 1, k) implies kcmp(key(m), k) != Ordering::Greater by {
                        lemma_any_sat_step(self.0@, n, k);
                        if let Some(c) = cand { lemma_k_flip(key(c), key(m)); if sat(self.0@[n], k) { lemma_k_trans(key(m), key(c), k); } }
                        if let Some(o) = old_min { lemma_k_flip(key(m), key(o)); if any_sat(self.0@, n, k) { lemma_k_trans(key(m), key(o), k); } }
                    }
                },
                None => {},
            }
        }''')])
for _nm, _ord in (('max_satisfying', 'Greater'), ('min_satisfying', 'Less')):
    RANGE[_nm] = dict(ret='r', contract=f'''    requires rwf(*self),
    ensures r matches Some(m) ==> rsat(*self, key(*m)) && (exists|k: int| 0 <= k < versions@.len() && *m == #[trigger] versions@[k])
                && forall|j: int| 0 <= j < versions@.len() && rsat(*self, key(#[trigger] versions@[j])) ==> ver_cmp(versions@[j], *m) != Ordering::{_ord},
            r is None ==> forall|j: int| 0 <= j < versions@.len() ==> !rsat(*self, key(#[trigger] versions@[j])),''')

# ---------------------------------------------------------------------------------------------- comparator lists (C02)
INTERSECT_ALL = dict(ret='r', contract='''    requires forall|i: int| 0 <= i < comparators@.len() ==> ((#[trigger] comparators@[i]) matches Some(b) ==> bs_wf(b)),
    ensures conj_post(comparators@, r@),''',
    entry='broadcast use g_conj;',
    loops=[(0, 'it0', '''forall|i: int| 0 <= i < comparators@.len() ==> ((#[trigger] comparators@[i]) matches Some(b) ==> bs_wf(b)),
        conj_inv(comparators@, it0.index@ as int, acc),''')],
    loop_entry=[(0, '''let ghost old_acc = acc; let ghost n0 = it0.index@ as int;
        proof {
            assert(*comparator == comparators@[n0]);
            // the early exit: when the next comparator has nothing in common with the intersection so far, nothing lies within all of them
            if old_acc is Some && comparators@[n0] is Some && !boverlap(old_acc->0, comparators@[n0]->0) { lemma_conj_inv_empty(comparators@, n0, old_acc); }
        }''')],
    loop_end=[(0, '''proof {
            assert(*comparator == comparators@[n0]);
            lemma_conj_inv_step(comparators@, n0, old_acc, acc);
        }''')],
)

PARTIAL_NORMALIZE = dict(ret='r', contract='''    requires partial_nums_ok(self),
    ensures wf_partial(r),
            r.major == self.major,
            r.minor == (if self.major is Some { self.minor } else { None }),
            r.patch == (if self.major is Some && self.minor is Some { self.patch } else { None }),
            r.patch is Some ==> r.pre_release == self.pre_release && r.build == self.build,''')
FROM_PARTIAL = dict(ret='r', contract="    ensures r.major == (match partial.major { Some(x) => x, None => 0 }), r.minor == (match partial.minor { Some(x) => x, None => 0 }), r.patch == (match partial.patch { Some(x) => x, None => 0 }), r.pre_release == partial.pre_release, r.build == partial.build")

# ---------------------------------------------------------------------------------------------- desugaring clause grids (C01)
SHAPES = [
    ('N', '{p}.major is None'),
    ('M', '{p}.major is Some && {p}.minor is None'),
    ('M.m', '{p}.major is Some && {p}.minor is Some && {p}.patch is None'),
    ('M.m.p', '{p}.major is Some && {p}.minor is Some && {p}.patch is Some && {p}.pre_release@.len() == 0'),
    ('M.m.p-pre', '{p}.major is Some && {p}.minor is Some && {p}.patch is Some && {p}.pre_release@.len() > 0'),
]


def clause(cond, post, cid):
    return f'        {cond} ==> {post},  // @{cid}'


def small_clause(name):
    # the representation invariant every comparator establishes: a well formed interval with small numbers (the precondition of every
    # operation on ranges; an obligation of every property about those operations, since their quantifier is "ranges obtained from parse")
    return '        r matches Some(bs) ==> bs_wf(bs),  // @' + name + '#wf\n        r matches Some(bs) ==> bs_small(bs),  // @' + name + '#small'


def grid_partial(P='partial'):
    return ['    requires wf_partial(%s),' % P, '    ensures', small_clause('plain')] + [clause(c.format(p=P), 'shape_ok_c(r, npm_plain_c(%s))' % P, 'plain#' + s) for s, c in SHAPES]


def grid_caret(P='parsed'):
    out = ['    requires wf_partial(%s),' % P, '    ensures', small_clause('caret')]
    for s, c in SHAPES:
        c = c.format(p=P)
        if s == 'N':
            out.append(clause(c, 'shape_ok_c(r, npm_caret_c(%s))' % P, 'caret#N'))
        elif s in ('M', 'M.m'):
            out.append(clause(c + ' && pM(%s) == 0' % P, 'shape_ok_c(r, npm_caret_c(%s))' % P, 'caret#0:' + s))
            if s == 'M':
                # `^0` is a known finding (no `>=0.0.0`); this clause pins what the code does instead, so that any *further* deviation is still reported
                out.append(clause(c + ' && pM(%s) == 0' % P, 'shape_ok_c(r, npm_caret_c(%s)) || shape_ok_c(r, CSet::One(lt(k4(1, 0, 0, pre0()))))' % P, 'caret#0:M#npm-or-pinned'))
            out.append(clause(c + ' && pM(%s) != 0' % P, 'shape_ok_c(r, npm_caret_c(%s))' % P, 'caret#+:' + s))
        else:
            out.append(clause(c + ' && pM(%s) == 0 && pm(%s) == 0' % (P, P), 'shape_ok_c(r, npm_caret_c(%s))' % P, 'caret#0.0:' + s))
            out.append(clause(c + ' && pM(%s) == 0 && pm(%s) != 0' % (P, P), 'shape_ok_c(r, npm_caret_c(%s))' % P, 'caret#0.+:' + s))
            out.append(clause(c + ' && pM(%s) != 0' % P, 'shape_ok_c(r, npm_caret_c(%s))' % P, 'caret#+:' + s))
    return out


def grid_tilde(P='parsed'):
    out = ['    requires wf_partial(%s.1),' % P, '    ensures', small_clause('tilde')]
    for g, gc in (('~', '%s.0 is None' % P), ('~>', '%s.0 is Some' % P)):
        for s, c in SHAPES:
            out.append(clause(gc + ' && ' + c.format(p=P + '.1'), 'shape_ok_c(r, npm_tilde_c(%s.1))' % P, 'tilde#' + g + s))
    return out


OPS = ['Exact', 'GreaterThan', 'GreaterThanEquals', 'LessThan', 'LessThanEquals']


def grid_primitive(op, P='parsed'):
    out = ['    requires wf_partial(%s.1), %s.0 == Operation::' % (P, P) + op + ',', '    ensures', small_clause('primitive#' + op)]
    for s, c in SHAPES:
        # `<=1` / `<=1.2` are written as `<=1.MAX.MAX` / `<=1.2.MAX` (pinned by the suite): same admitted versions, stated as such
        post = 'shape_equiv_c' if (op == 'LessThanEquals' and s in ('M', 'M.m')) else 'shape_ok_c'
        out.append(clause(c.format(p=P + '.1'), post + '(r, npm_primitive_c(%s.0, %s.1))' % (P, P), 'primitive#' + op + ':' + s))
        if op == 'LessThan' and s == 'M':
            # `<M` is a known finding (`<M.0.0` instead of `<M.0.0-0`); pinned so that any further deviation is still reported
            out.append(clause(c.format(p=P + '.1'), 'shape_ok_c(r, npm_primitive_c(%s.0, %s.1)) || shape_ok_c(r, CSet::One(lt(k3(pM(%s.1), 0, 0))))' % (P, P, P), 'primitive#LessThan:M#npm-or-pinned'))
    return out


def grid_hyphen(L='lower', U='upper'):
    out = ['    requires wf_partial(%s), %s matches Some(f) ==> wf_partial(f),' % (U, L), '    ensures', small_clause('hyphen')]
    lowers = [('none', '%s is None' % L)] + [(s, '%s is Some && ' % L + c.format(p=L + '->0')) for s, c in SHAPES]
    for ls, lc in lowers:
        for s, c in SHAPES:
            tgt = ('npm_hyphen_to_only_c(%s)' % U) if ls == 'none' else 'npm_hyphen_c(%s->0, %s)' % (L, U)
            out.append(clause(lc + ' && ' + c.format(p=U), 'shape_ok_c(r, ' + tgt + ')', 'hyphen#' + ls + ' - ' + s))
    return out


def _cover(name, params, lines):
    """vacuity guard for a clause grid: under the grid's precondition the clause guards are exhaustive (a mistyped guard
    that can never hold would leave a shape without a clause); the must-fail twin is in canaries.rs"""
    req = [l for l in lines if l.lstrip().startswith('requires')][0]
    guards = []
    for l in lines:
        m = re_clause.match(l)
        if m and '#npm-or-pinned' not in l and '#small' not in l:
            guards.append('(' + m.group(1) + ')')
    return 'pub proof fn cover_%s(%s)\n%s\n    ensures\n        %s\n{ }\n' % (name, params, req, '\n        || '.join(guards))


import re as _re0
re_clause = _re0.compile(r'^\s+(.*?) ==> .*//\s*@\S+')


def cover_lemmas():
    out = [_cover('plain', 'p: Partial', grid_partial('p')), _cover('caret', 'p: Partial', grid_caret('p')),
           _cover('tilde', 'p: (Option<&str>, Partial)', grid_tilde('p')), _cover('hyphen', 'lo: Option<Partial>, up: Partial', grid_hyphen('lo', 'up'))]
    for op in OPS:
        out.append(_cover('primitive_' + op, 'p: (Operation, Partial)', grid_primitive(op, 'p')))
    return '\n'.join(out)


DESUGAR_HINT_HEAD = """{
 broadcast use group_k_order, group_sets;
 proof { reveal(cut_cmp);
        assert forall|s: Seq<Identifier>| #![trigger s.len()] s.len() == 1 && s[0] == Identifier::Numeric(0) implies s == pre0() by { assert(s =~= pre0()); }
        assert forall|s: Seq<Identifier>| #![trigger s.len()] s.len() == 0 implies s == Seq::<Identifier>::empty() by { assert(s =~= Seq::<Identifier>::empty()); }
"""
DESUGAR_HINT = DESUGAR_HINT_HEAD + " }\n    "
DESUGAR_HINT_LE_T = DESUGAR_HINT_HEAD + """        assert forall|w: Seq<Identifier>| #![trigger pre_cmp(w, pre0())] w.len() > 0 implies pre_cmp(w, pre0()) != Ordering::Less by { lemma_least_pre0(w); lemma_pre_flip(w, pre0()); }
        // `<=M` is written `<=M.MAX.MAX`, `<=M.m` is written `<=M.m.MAX`: same versions below, no opt-in on either side
        if parsed.1.major is Some {
            let mj = parsed.1.major->0 as int;
            assert forall|v: VKey| #![trigger below(Cut::At(k3(mj, MAX_SAFE_INTEGER as int, MAX_SAFE_INTEGER as int), true), v)] wfk(v) implies
                below(Cut::At(k3(mj, MAX_SAFE_INTEGER as int, MAX_SAFE_INTEGER as int), true), v) == below(Cut::At(k4(mj + 1, 0, 0, pre0()), false), v)
                && (below(Cut::At(k4(mj + 1, 0, 0, pre0()), false), v) ==> !same_tuple(k4(mj + 1, 0, 0, pre0()), v)) by { lemma_le_major_equiv(mj, v); }
            if parsed.1.minor is Some {
                let mn = parsed.1.minor->0 as int;
                assert forall|v: VKey| #![trigger below(Cut::At(k3(mj, mn, MAX_SAFE_INTEGER as int), true), v)] wfk(v) implies
                    below(Cut::At(k3(mj, mn, MAX_SAFE_INTEGER as int), true), v) == below(Cut::At(k4(mj, mn + 1, 0, pre0()), false), v)
                    && (below(Cut::At(k4(mj, mn + 1, 0, pre0()), false), v) ==> !same_tuple(k4(mj, mn + 1, 0, pre0()), v)) by { lemma_le_minor_equiv(mj, mn, v); }
            }
        }
 }
    """



def desugar_hint_le(P='parsed'):
    return DESUGAR_HINT_LE_T.replace('parsed.1', P + '.1')


DESUGAR_HINT_LE = desugar_hint_le()

# ---------------------------------------------------------------------------------------------- locals by placeholder
# The annotations above are written with the names the locals have today; they are stored with placeholders ($L<n> = variable of the
# n-th `for` loop, $M<n> = n-th `let mut`), so that renaming a local in /repo does not detach the proof from the code.
import re as _re


def _tpl(kw, names):
    def sub(t):
        for nm, ph in names.items():
            t = _re.sub(r'(?<![\w$])' + nm + r'(?![\w])', ph, t)
        return t
    out = dict(kw)
    for k in ('entry', 'contract'):
        if k in out:
            out[k] = sub(out[k])
    for k in ('loops',):
        if k in out:
            out[k] = [(o, it, sub(inv)) for (o, it, inv) in out[k]]
    for k in ('loop_entry', 'loop_end'):
        if k in out:
            out[k] = [(o, sub(t)) for (o, t) in out[k]]
    for k in ('after', 'before'):
        if k in out:
            out[k] = [(sub(a), sub(b)) for (a, b) in out[k]]
    return out


for _k in list(VERSION):
    VERSION[_k] = _tpl(VERSION[_k], {'other': '$P0', 'range': '$P0', 'state': '$P0'})
for _k in ('allows_all', 'allows_any', 'intersect', 'difference'):
    BOUNDSET[_k] = _tpl(BOUNDSET[_k], {'other': '$P0'})
BOUNDSET['new'] = _tpl(BOUNDSET['new'], {'lower': '$P0', 'upper': '$P1'})
BOUNDSET['at_least'] = _tpl(BOUNDSET['at_least'], {'p': '$P0'})
BOUNDSET['at_most'] = _tpl(BOUNDSET['at_most'], {'p': '$P0'})
BOUNDSET['exact'] = _tpl(BOUNDSET['exact'], {'version': '$P0'})
BOUNDSET['satisfies'] = _tpl(BOUNDSET['satisfies'], {'version': '$P0'})
for _k in ('allows_all', 'allows_any', 'intersect', 'difference'):
    RANGE[_k] = _tpl(RANGE[_k], {'other': '$P0'})
for _k in ('max_satisfying', 'min_satisfying'):
    RANGE[_k] = _tpl(RANGE[_k], {'versions': '$P0'})
RANGE['satisfies'] = _tpl(RANGE['satisfies'], {'version': '$P0'})
INTERSECT_ALL = _tpl(INTERSECT_ALL, {'comparators': '$P0'})
FROM_PARTIAL = _tpl(FROM_PARTIAL, {'partial': '$P0'})
RANGE['satisfies'] = _tpl(RANGE['satisfies'], {'range': '$L0'})
RANGE['allows_any'] = _tpl(RANGE['allows_any'], {'this': '$L0', 'that': '$L1'})
RANGE['allows_all'] = _tpl(RANGE['allows_all'], {'this': '$L0', 'that': '$L1'})
RANGE['intersect'] = _tpl(RANGE['intersect'], {'lefty': '$L0', 'righty': '$L1', 'sets': '$M0'})
RANGE['difference'] = _tpl(RANGE['difference'], {'lefty': '$L0', 'righty': '$L1', 'piece': '$L2', 'predicates': '$M0', 'remainders': '$M1', 'next': '$M2'})
RANGE['min_version'] = _tpl(RANGE['min_version'], {'range': '$L0', 'min': '$M0'})
INTERSECT_ALL = _tpl(INTERSECT_ALL, {'comparator': '$L0', 'acc': '$M0'})

# which collection each annotated loop runs over (regex on the loop header's iterable, blanks removed; placeholders allowed)
_SELF = r'&self\.0|self\.0\.iter\(\)'
_OTHER = r'&$P0\.0|$P0\.0\.iter\(\)'
RANGE['satisfies']['loop_over'] = [(0, _SELF)]
RANGE['min_version']['loop_over'] = [(0, _SELF)]
for _k in ('allows_any', 'allows_all', 'intersect'):
    RANGE[_k]['loop_over'] = [(0, _SELF), (1, _OTHER)]
RANGE['difference']['loop_over'] = [(0, _SELF), (1, _OTHER), (2, r'&$M1|$M1\.iter\(\)')]
INTERSECT_ALL['loop_over'] = [(0, r'$P0|$P0\.iter\(\)')]


# ====================================================================================================================================
# Text shell, version grammar (C05): the grammar functions of src/lib.rs under the assumed winnow contracts of contracts/winnow_shim.rs.
# For each function: output type, what it accepts / rejects (against the reference grammar of contracts/vgrammar_spec.rs), the
# annotations its closures need (exact snippet -> the same snippet with parameter types and a contract; exec tokens unchanged except
# where a rewrite is named), and ghost code at function entry.
E_STR = "SemverParseError<&'s str>"


def _lits(*cs):
    return 'proof { ' + ' '.join('reveal_strlit("%s"); assert("%s"@ =~= ch1(\'%s\')); lemma_prefix1(\'%s\');' % (c, c, c, c) for c in cs) + ' }\n    '


_SEP_HINT = """let ghost lit = Literal { t: "." };
    proof {
        assert(is_ident_parser::<SemverParseError<&'s str>, _>(identifier));
        assert(is_dot_parser::<SemverParseError<&'s str>, Literal>(lit));
        assert forall|i: &'s str, out: Seq<Identifier>, rest: &'s str| out.len() >= 1 && #[trigger] sep_all::<&'s str, Identifier, &'s str, SemverParseError<&'s str>, _, Literal>(identifier, lit, i, out, rest) implies (g_idents(i@) matches Some((x, r)) && idents_are(out, x) && r == rest@) by {
            lemma_sep_all_idents::<SemverParseError<&'s str>, _, Literal>(identifier, lit, i, out, rest);
        }
    }
    """

GRAMMAR = {
    'number': dict(
        O='u64', acc='g_number(i@) == Some((o as nat, rest@))', rej='g_number(i@) is None',
        rewrites=[("|raw| {", "|raw: &'s str| -> (r: Result<u64, SemverParseError<&'s str>>)\n        ensures match r { Ok(v) => v <= MAX_SAFE_INTEGER && parse_spec::<u64>(raw@) == Some(v), Err(_) => parse_spec::<u64>(raw@) matches Some(v) ==> v > MAX_SAFE_INTEGER }\n    {", 'closure parameter typed, contract'),
                  ("|e| SemverParseError {", "|e: std::num::ParseIntError| -> (pe: SemverParseError<&'s str>) { SemverParseError {", 'closure parameter typed (its result is an error payload: no contract needed)'),
                  ("kind: Some(SemverErrorKind::ParseIntError(e)),\n        })?;", "kind: Some(SemverErrorKind::ParseIntError(e)),\n        } })?;", 'closure body braces')],
        entry='broadcast use ax_parse_u64_digits;\n    proof { lemma_span_props(input@, |c: char| dg_char(c)); }\n    '),
    'version_core': dict(
        O='(u64, u64, u64)', acc='g_core(i@) == Some(((o.0 as nat, o.1 as nat, o.2 as nat), rest@))', rej='g_core(i@) is None',
        rewrites=[("|(major, _, minor, _, patch)| (major, minor, patch)",
                   "|arg: (u64, &'s str, u64, &'s str, u64)| -> (r: (u64, u64, u64)) ensures r == (arg.0, arg.2, arg.4) { let (major, _, minor, _, patch) = arg; (major, minor, patch) }",
                   'R2 closure pattern parameter bound by `let`')],
        entry=_lits('.')),
    'identifier': dict(
        O='Identifier', acc='g_ident(i@) matches Some((s, r)) && ident_is(o, s) && r == rest@', rej='g_ident(i@) is None',
        rewrites=[(re.compile(r"take_while\((\S+), \|(\w+): char\| (.*)\),\n"), r"take_while(\1, |\2: char| -> (b: bool) ensures b == id_char(\2) { \3 }),\n", 'closure contract (the predicate of take_while, whatever its text)'),
                  ("|s: &str| {", "|s: &str| -> (r: Identifier) requires s@.len() > 0, all_id_chars(s@) ensures ident_is(r, classify(s@)) {\n            broadcast use ax_parse_u64_digits, ax_parse_u64_nondigit;", 'closure contract'),
                  ('.map(Identifier::Numeric)', '.map(|n: u64| -> (i: Identifier) ensures i == Identifier::Numeric(n) { Identifier::Numeric(n) })', 'R12 constructor eta-expanded'),
                  ('.unwrap_or_else(|_err| Identifier::AlphaNumeric(s.to_string()))', '.unwrap_or_else(|_err: std::num::ParseIntError| -> (i: Identifier) ensures i matches Identifier::AlphaNumeric(t) && t@ == s@ { Identifier::AlphaNumeric(s.to_string()) })', 'closure contract')],
        entry='proof { lemma_span_props(input@, |c: char| id_char(c)); }\n    '),
    'build': dict(
        O='Vec<Identifier>', acc='g_build(i@) matches Some((s, r)) && idents_are(o@, s) && r == rest@', rej='g_build(i@) is None',
        rewrites=[], entry=_lits('.', '+') + _SEP_HINT),
    'pre_release': dict(
        O='Vec<Identifier>', acc='g_pre(i@) matches Some((s, r)) && idents_are(o@, s) && r == rest@', rej='g_pre(i@) is None',
        rewrites=[], entry=_lits('.', '-') + _SEP_HINT),
    'extras': dict(
        O='(Vec<Identifier>, Vec<Identifier>)', acc='idents_are(o.0@, g_extras(i@).0.0) && idents_are(o.1@, g_extras(i@).0.1) && rest@ == g_extras(i@).1', rej='false',
        rewrites=[('Extras::ReleaseAndBuild)', '|x: (Vec<Identifier>, Vec<Identifier>)| -> (r: Extras) ensures r == Extras::ReleaseAndBuild(x) { Extras::ReleaseAndBuild(x) })', 'R12 constructor eta-expanded'),
                  ('Extras::Release)', '|x: Vec<Identifier>| -> (r: Extras) ensures r == Extras::Release(x) { Extras::Release(x) })', 'R12 constructor eta-expanded'),
                  ('Extras::Build)', '|x: Vec<Identifier>| -> (r: Extras) ensures r == Extras::Build(x) { Extras::Build(x) })', 'R12 constructor eta-expanded'),
                  ('|extras| match extras {', '|extras: Option<Extras>| -> (r: (Vec<Identifier>, Vec<Identifier>)) ensures extras_vals(extras, r) { match extras {', 'closure parameter typed, contract'),
                  ('            _ => Default::default(),\n        },', '            _ => Default::default(),\n        } },', 'closure body braces')],
        entry=''),
    'version': dict(
        O='Version', acc='g_version(i@) matches Some((s, r)) && version_is(o, s) && r == rest@', rej='g_version(i@) is None',
        rewrites=[('|(_, _, (major, minor, patch), (pre_release, build))| Version {',
                   "|arg: (Option<&'s str>, &'s str, (u64, u64, u64), (Vec<Identifier>, Vec<Identifier>))| -> (r: Version) ensures r.major == arg.2.0, r.minor == arg.2.1, r.patch == arg.2.2, r.pre_release == arg.3.0, r.build == arg.3.1 { let (_, _, (major, minor, patch), (pre_release, build)) = arg; Version {",
                   'R2 closure pattern parameter bound by `let`'),
                  ('                build,\n            },', '                build,\n            } },', 'closure body braces')],
        entry=_lits('v', 'V')),
}
GRAMMAR_ORDER = ['number', 'version_core', 'identifier', 'build', 'pre_release', 'extras', 'version']


def grammar_sig(name):
    return "pub fn %s<'s>(input: &mut &'s str) -> (r: PResult<%s, %s>)" % (name, GRAMMAR[name]['O'], E_STR)


GRAMMAR_CONTRACT_T = "    ensures\n        (r is Ok ==> %s_acc(*old(input), r->Ok_0, *final(input))),\n        (r is Err ==> %s_rej(*old(input))),"
# (the same fact once more with the rest as a bound variable: a caller that has to exhibit "some rest" finds the term in that form)
GRAMMAR_CONTRACT_T2 = "        (r is Ok ==> exists|rest_: &'s str| rest_ == *final(input) && #[trigger] %s_acc(*old(input), r->Ok_0, rest_)),"


def grammar_twins():
    """the caller's view of every grammar function (modular verification: contract, no body) + the definitional axioms that say what the
    function *as a parser value* accepts: its own contract"""
    tw = []
    for n in GRAMMAR_ORDER:
        d = GRAMMAR[n]
        O = d['O']
        q = "Parser::<&'s str, %s, %s>" % (O, E_STR)
        tw.append("pub open spec fn %s_acc<'s>(i: &'s str, o: %s, rest: &'s str) -> bool { %s }" % (n, O, d['acc']))
        tw.append("pub open spec fn %s_rej<'s>(i: &'s str) -> bool { %s }" % (n, d['rej']))
        tw.append("pub broadcast axiom fn def_%s_acc<'s>(i: &'s str, o: %s, rest: &'s str)\n    ensures #[trigger] %s::accepts(&%s, i, o, rest) <==> %s_acc(i, o, rest);" % (n, O, q, n, n))
        tw.append("pub broadcast axiom fn def_%s_rej<'s>(i: &'s str)\n    ensures #[trigger] %s::rejects(&%s, i) <==> %s_rej(i);" % (n, q, n, n))
        tw.append("pub broadcast axiom fn def_%s_pre<'s>(i: &'s str)\n    ensures #[trigger] %s::pre(&%s, i);" % (n, q, n))
        tw.append("#[verifier::external_body]\n%s\n%s\n%s\n{ unimplemented!() }" % (grammar_sig(n), GRAMMAR_CONTRACT_T % (n, n), GRAMMAR_CONTRACT_T2 % n))
    tw.append('pub broadcast group grammar_defs { %s }' % ', '.join('def_%s_%s' % (n, k) for n in GRAMMAR_ORDER for k in ('acc', 'rej', 'pre')))
    return '\n'.join(tw)


GRAMMAR_CONTRACT = "    ensures\n        (r is Ok ==> %s_acc(*old(input), r->Ok_0, *final(input))),\n        (r is Err ==> %s_rej(*old(input))),"

EXTRAS_SPEC = """pub open spec fn extras_vals(e: Option<Extras>, r: (Vec<Identifier>, Vec<Identifier>)) -> bool {
    match e {
        Some(Extras::Release(p)) => r.0 == p && r.1@.len() == 0,
        Some(Extras::Build(b)) => r.0@.len() == 0 && r.1 == b,
        Some(Extras::ReleaseAndBuild(pb)) => r == pb,
        None => r.0@.len() == 0 && r.1@.len() == 0,
    }
}
"""
PARSE_SPEC = """// R16: the payload of a SemverError (input, span, kind) is C17's subject and is built with `char_indices` and a pointer difference: every
// `SemverError { .. }` literal of Version::parse is replaced by this opaque constructor
pub struct SemverError { pub verif_opaque: u8 }
#[verifier::external_body]
pub fn verif_semver_error() -> SemverError { unimplemented!() }
// the length as `str::len` reports it (bytes)
pub open spec fn too_long(s: &str) -> bool { (s.spec_bytes().len() as usize) > MAX_LENGTH }
// the whole text is a version: what g_version leaves unread is blanks only
pub open spec fn ref_parse(s: Seq<char>) -> Option<VSpec> {
    match g_version(s) { Some((v, rest)) => if all_blank(rest) { Some(v) } else { None }, None => None }
}
"""
PARSE_OK = "(r matches Ok(v) ==> (!too_long(text) && (ref_parse(text@) matches Some(s) && version_is(v, s))))"
PARSE_ERR = "(r is Err ==> (too_long(text) || ref_parse(text@) is None))"
PARSE_CONTRACT = "        ensures\n            " + PARSE_OK + ",  // @Version::parse#accepts-only-whole-versions\n            " + PARSE_ERR + ",  // @Version::parse#accepts-every-version"
# the same two clauses as a predicate (C12's lemmas talk about "what Version::parse promises")
PARSE_POST = "pub open spec fn parse_post(text: &str, r: Result<Version, SemverError>) -> bool {\n    &&& " + PARSE_OK + "\n    &&& " + PARSE_ERR + "\n}\n"
PARSE_ENTRY = "broadcast use winnow_defs, grammar_defs;\n        proof { match g_version(text@) { Some((_, rest)) => { lemma_all_blank(rest); }, None => {} } }\n        "


# ====================================================================================================================================
# Display under contract (A16: the `write!` model of contracts/fmt_spec.rs)
DISPLAY_CONTRACT = "        ensures r is Ok ==> fmt_out(*final(f)) == fmt_out(*old(f)) + self.disp(),  // @display#text\n            r is Err ==> fmt_failed(*final(f)),  // @display#err-only-from-the-writer"
IDENT_FMT_HINT = 'proof { reveal_strlit(""); assert(""@ =~= Seq::<char>::empty()); }'
DIFF_HINT = 'proof { reveal_strlit("major"); reveal_strlit("minor"); reveal_strlit("patch"); reveal_strlit("premajor"); reveal_strlit("preminor"); reveal_strlit("prepatch"); reveal_strlit("prerelease"); }'
VERSION_FMT_HINT = 'broadcast use ax_vec_len_fits;\n        let ghost out0 = fmt_out(*f);\n        let ghost core = dec_text(self.major as nat) + ch1(\'.\') + dec_text(self.minor as nat) + ch1(\'.\') + dec_text(self.patch as nat);\n        proof { reveal_strlit("."); reveal_strlit("-"); reveal_strlit("+"); reveal_strlit(""); assert("."@ =~= ch1(\'.\')); assert("-"@ =~= ch1(\'-\')); assert("+"@ =~= ch1(\'+\')); assert(""@ =~= Seq::<char>::empty()); }'
VERSION_FMT_LOOPS = [
    "$I == $IT.index@, self.pre_release@.len() <= usize::MAX, fmt_out(*f) == out0 + core + ids_text(self.pre_release@, $I as int, '-'), \".\"@ == ch1('.'), \"-\"@ == ch1('-'), \"+\"@ == ch1('+'), \"\"@ == Seq::<char>::empty(),",
    "$I == $IT.index@, self.build@.len() <= usize::MAX, fmt_out(*f) == out0 + core + ids_text(self.pre_release@, self.pre_release@.len() as int, '-') + ids_text(self.build@, $I as int, '+'), \".\"@ == ch1('.'), \"-\"@ == ch1('-'), \"+\"@ == ch1('+'), \"\"@ == Seq::<char>::empty(),",
]


# ====================================================================================================================================
# Text shell, range grammar, leaves (src/range.rs): operators, x-ranges, components, partial versions, `~>`, `||`
def _lits2(*ps):
    return 'proof { ' + ' '.join('reveal_strlit("%s%s"); assert("%s%s"@ =~= ch2(\'%s\', \'%s\')); lemma_prefix2(\'%s\', \'%s\');' % (a, b, a, b, a, b, a, b) for (a, b) in ps) + ' }\n    '


RGRAMMAR = {
    'x_or_asterisk': dict(
        src='rng', O='()', acc='g_xr(i@) == Some(rest@)', rej='g_xr(i@) is None',
        rewrites=[("|_| ()", "|_x: &'s str| -> (r: ()) { () }", 'R2 `_` closure parameter named')],
        entry=_lits('x', 'X', '*')),
    'component': dict(
        src='rng', O='Option<u64>', acc='g_component(i@) matches Some((c, r)) && opt_num_is(o, c) && r == rest@', rej='g_component(i@) is None',
        rewrites=[("Parser::map(x_or_asterisk, |_| None)", "Parser::map(x_or_asterisk, |_x: ()| -> (r: Option<u64>) ensures r is None { None })", 'R2 `_` closure parameter named, contract'),
                  ("Parser::map(number, Some)", "Parser::map(number, |n: u64| -> (r: Option<u64>) ensures r == Some(n) { Some(n) })", 'R12 constructor eta-expanded')],
        entry=''),
    'operation': dict(
        src='rng', O='Operation', acc='g_operation(i@) == Some((o, rest@))', rej='g_operation(i@) is None',
        rewrites=[("|_| GreaterThanEquals", "|_x: &'s str| -> (r: Operation) ensures r == Operation::GreaterThanEquals { GreaterThanEquals }", 'R2, contract'),
                  ("|_| GreaterThan)", "|_x: &'s str| -> (r: Operation) ensures r == Operation::GreaterThan { GreaterThan })", 'R2, contract'),
                  ("|_| Exact", "|_x: &'s str| -> (r: Operation) ensures r == Operation::Exact { Exact }", 'R2, contract'),
                  ("|_| LessThanEquals", "|_x: &'s str| -> (r: Operation) ensures r == Operation::LessThanEquals { LessThanEquals }", 'R2, contract'),
                  ("|_| LessThan)", "|_x: &'s str| -> (r: Operation) ensures r == Operation::LessThan { LessThan })", 'R2, contract')],
        entry=_lits('>', '=', '<') + _lits2(('>', '='), ('<', '='))),
    'tilde_gt': dict(
        src='rng', O="Option<&'s str>", acc='g_tilde_gt(i@) == Some((o is Some, rest@))', rej='g_tilde_gt(i@) is None',
        rewrites=[("|(_, _, gt, _)| gt", "|arg: (&'s str, &'s str, Option<&'s str>, &'s str)| -> (r: Option<&'s str>) ensures r == arg.2 { let (_, _, gt, _) = arg; gt }", 'R2 closure pattern parameter bound by `let`')],
        entry=_lits('~', '>')),
    'logical_or': dict(
        src='rng', O='()', acc='g_or(i@) == Some(rest@)', rej='g_or(i@) is None',
        rewrites=[("|_| ()", "|_x: &'s str| -> (r: ()) { () }", 'R2 `_` closure parameter named')],
        entry=_lits2(('|', '|'))),
    'partial_version': dict(
        src='rng', O='Partial', acc='g_partial(i@) matches Some((ps, r)) && partial_is(o, ps) && r == rest@ && wf_partial(o)', rej='g_partial(i@) is None',
        rewrites=[], entry=_lits('v', '.')),
}
RGRAMMAR_ORDER = ['x_or_asterisk', 'component', 'operation', 'tilde_gt', 'logical_or', 'partial_version']
for _n in RGRAMMAR_ORDER:
    GRAMMAR[_n] = RGRAMMAR[_n]
GRAMMAR_ORDER = GRAMMAR_ORDER + RGRAMMAR_ORDER


# ====================================================================================================================================
# Range grammar, comparators as whole functions (primitive / partial / tilde / caret): what the function returns for the (operator,
# Partial) it reads off the text is what the desugaring clauses say -- the conjunction of the clause grid of that form, with the two
# known-finding clauses in their pinned form
KNOWN_CLAUSES = ('primitive#LessThan:M', 'caret#0:M')


def post_of(lines):
    """(requires text, conjunction of `guard ==> post` of every clause of a grid)"""
    req = [l for l in lines if l.lstrip().startswith('requires')][0].strip()[len('requires'):].strip().rstrip(',')
    cl = []
    for l in '\n'.join(lines).split('\n'):
        m = _re0.match(r'^\s+(.*),\s*//\s*@(\S.*?)\s*$', l)
        if m and m.group(2) not in KNOWN_CLAUSES:
            cl.append('(' + m.group(1) + ')')
    return req, '\n        && '.join(cl)


def comparator_posts():
    out = []
    req, post = post_of(grid_partial('p'))
    out.append('pub open spec fn partial_post(p: Partial, r: Option<BoundSet>) -> bool {\n        %s\n}' % post)
    req, post = post_of(grid_caret('p'))
    out.append('pub open spec fn caret_post(p: Partial, r: Option<BoundSet>) -> bool {\n        %s\n}' % post)
    req, post = post_of(grid_tilde('p'))
    out.append('pub open spec fn tilde_post(p: (Option<&str>, Partial), r: Option<BoundSet>) -> bool {\n        %s\n}' % post)
    parts = []
    for op in OPS:
        req, post = post_of(grid_primitive(op, 'p'))
        parts.append('(p.0 == Operation::%s ==> (\n        %s))' % (op, post))
    out.append('pub open spec fn primitive_post(p: (Operation, Partial), r: Option<BoundSet>) -> bool {\n        %s\n}' % '\n        && '.join(parts))
    return '\n'.join(out) + '\n'


# whole comparator functions: output type, reference reader, how the closure's argument relates to what the reader returns
COMPARATORS = {
    'partial': dict(ty='Partial', reader='g_partial(i@)', pat='(ps, r)', arg_is='partial_is(x, ps)', pre='wf_partial(x)', post='partial_post(x, o)', entry=''),
    'caret': dict(ty='Partial', reader='g_caret_ast(i@)', pat='(ps, r)', arg_is='partial_is(x, ps)', pre='wf_partial(x)', post='caret_post(x, o)', entry=_lits('^')),
    'tilde': dict(ty="(Option<&'s str>, Partial)", reader='g_tilde_ast(i@)', pat='((gt, ps), r)', arg_is='(x.0 is Some) == gt && partial_is(x.1, ps)', pre='wf_partial(x.1)', post='tilde_post(x, o)', entry=''),
    'primitive': dict(ty='(Operation, Partial)', reader='g_primitive_ast(i@)', pat='((op, ps), r)', arg_is='x.0 == op && partial_is(x.1, ps)', pre='wf_partial(x.1)', post='primitive_post(x, o)', entry=''),
}
for _n, _d in COMPARATORS.items():
    GRAMMAR[_n] = dict(
        src='rng', O='Option<BoundSet>', comparator=True,
        acc='%s matches Some(%s) && r == rest@ && exists|x: %s| #[trigger] %s(x, o) && %s && %s' % (_d['reader'], _d['pat'], _d['ty'].replace("&'s str", '&str'), _d['post'].split('(')[0], _d['arg_is'], _d['pre']),
        rej='%s is None' % _d['reader'], rewrites=[], entry=_d['entry'])
COMPARATOR_ORDER = ['partial', 'caret', 'tilde', 'primitive']
GRAMMAR_ORDER = GRAMMAR_ORDER + COMPARATOR_ORDER


# ---- hyphen (nested `parser` + the wrapper), garbage, simple
def hyphen_post_text():
    req, post = post_of(grid_hyphen('lo', 'up'))
    return 'pub open spec fn hyphen_post(lo: Option<Partial>, up: Partial, r: Option<BoundSet>) -> bool {\n        %s\n}\n' % post


_HY_ACC = 'g_hyphen_ast(i@) matches Some(((lo, up), r)) && r == rest@ && exists|xl: Option<Partial>, xu: Partial| #[trigger] hyphen_post(xl, xu, o) && lower_is(xl, lo) && partial_is(xu, up) && wf_partial(xu)'
_TERM = "alt_spec::<&'s str, &'s str, SemverParseError<&'s str>, _>((peek_spec::<&'s str, &'s str, SemverParseError<&'s str>, _>(space1::<SemverParseError<&'s str>>), peek_spec::<&'s str, &'s str, SemverParseError<&'s str>, _>(Literal { t: \"||\" }), eof::<SemverParseError<&'s str>>))"
_TERM_FACTS = _lits2(('|', '|')) + """proof {
        assert forall|a: Seq<char>| ws_span(a) > 0 <==> (a.len() > 0 && ws_char(a[0])) by { lemma_span_props(a, |c: char| ws_char(c)); }
    }
    """
GRAMMAR['parser'] = dict(src='rng', custom=True, O='Option<BoundSet>', acc=_HY_ACC, rej='g_hyphen_ast(i@) is None', rewrites=[], entry=_lits('-') + _TERM_FACTS)
GRAMMAR['hyphen'] = dict(src='rng', custom=True, O='Option<BoundSet>', acc=_HY_ACC, rej='g_hyphen_ast(i@) is None', rewrites=[], entry='')
GRAMMAR['garbage'] = dict(
    src='rng', O='Option<BoundSet>', acc='o is None && rest@ == i@.skip(term_pos(i@) as int)', rej='false',
    rewrites=[("|_: ((), &str)| None", "|_x: ((), &'s str)| -> (r: Option<BoundSet>) ensures r is None { None }", 'R2 `_` closure parameter named, contract')],
    entry=_TERM_FACTS + """let ghost tp = """ + _TERM + """;
    proof {
        assert(is_any_parser::<SemverParseError<&'s str>, _>(any::<SemverParseError<&'s str>>));
        assert(is_term_parser::<SemverParseError<&'s str>, _>(tp));
        assert forall|i: &'s str, n: nat, o2: &'s str, rest: &'s str| #[trigger] rt_acc::<&'s str, char, &'s str, SemverParseError<&'s str>, _, _>(any::<SemverParseError<&'s str>>, tp, i, n, o2, rest) implies rest@ == i@.skip(term_pos(i@) as int) by {
            lemma_rt_garbage::<SemverParseError<&'s str>, _, _>(any::<SemverParseError<&'s str>>, tp, i, n, o2, rest);
        }
        assert forall|i: &'s str, n: nat| #[trigger] rt_rej::<&'s str, char, &'s str, SemverParseError<&'s str>, _, _>(any::<SemverParseError<&'s str>>, tp, i, n) implies false by {
            lemma_rt_garbage_never_fails::<SemverParseError<&'s str>, _, _>(any::<SemverParseError<&'s str>>, tp, i, n);
        }
    }
    """)


def _applies(reader):
    return '(%s matches Some((_, r)) && at_term(r))' % reader


GRAMMAR['simple'] = dict(
    src='rng', O='Option<BoundSet>',
    acc=('if ' + _applies('g_hyphen_ast(i@)') + ' { hyphen_acc(i, o, rest) } else if ' + _applies('g_primitive_ast(i@)') + ' { primitive_acc(i, o, rest) } else if ' + _applies('g_partial(i@)')
         + ' { partial_acc(i, o, rest) } else if ' + _applies('g_tilde_ast(i@)') + ' { tilde_acc(i, o, rest) } else if ' + _applies('g_caret_ast(i@)') + ' { caret_acc(i, o, rest) } else { garbage_acc(i, o, rest) }'),
    rej='false', rewrites=[], entry=_TERM_FACTS)
RTOP_ORDER = ['parser', 'hyphen', 'garbage', 'simple']
GRAMMAR_ORDER = GRAMMAR_ORDER + RTOP_ORDER


# ---- range (one alternative) and bound_sets (the alternatives of a text)
_E = "SemverParseError<&'s str>"
GRAMMAR['range'] = dict(
    src='rng', O='Vec<BoundSet>',
    acc=("if empty_alt(i@) { rest@ == skip_ws(i@) && o@.len() == 1 && shape_ok_c(Some(o@[0]), any_c()) && bs_small(o@[0]) } else { exists|outs: Seq<Option<BoundSet>>| #[trigger] sep_all::<&'s str, Option<BoundSet>, &'s str, %s, _, _>(simple, space1::<%s>, i, outs, rest) && all_elem_ok(outs) && conj_post(outs, o@) }" % (_E, _E)),
    rej='false',
    rewrites=[(re.compile(r"\|_\| \{\s*let star = BoundSet::at_least\(Predicate::Including\(\(0, 0, 0\)\.into\(\)\)\);\s*intersect_all\(&\[star\]\)\s*\}"),
               "|_x: &'s str| -> (r: Vec<BoundSet>) ensures r@.len() == 1, shape_ok_c(Some(r@[0]), any_c()), bs_small(r@[0]) { empty_range_desugar() }",
               'R5b the closure for the empty range replaced by a call to empty_range_desugar (the same text, lifted)'),
              ("|bs: Vec<Option<BoundSet>>| intersect_all(&bs)", "|bs: Vec<Option<BoundSet>>| -> (r: Vec<BoundSet>) requires all_elem_ok(bs@) ensures conj_post(bs@, r@) { intersect_all(&bs) }", 'closure contract')],
    entry=_TERM_FACTS + """proof {
        assert forall|a: Seq<char>| 0 <= #[trigger] ws_span(a) <= a.len() by { lemma_span_le(a, |c: char| ws_char(c)); }
        assert forall|a: &'s str, o: Option<BoundSet>, b: &'s str| #[trigger] Parser::<&'s str, Option<BoundSet>, SemverParseError<&'s str>>::accepts(&simple, a, o, b) implies elem_ok(o) by { }
        assert forall|i: &'s str, outs: Seq<Option<BoundSet>>, rest: &'s str| #[trigger] sep_all::<&'s str, Option<BoundSet>, &'s str, SemverParseError<&'s str>, _, _>(simple, space1::<SemverParseError<&'s str>>, i, outs, rest) implies all_elem_ok(outs) by {
            lemma_sep_all_elems::<SemverParseError<&'s str>, _, _>(simple, space1::<SemverParseError<&'s str>>, i, outs, rest);
        }
    }
    """)
GRAMMAR['bound_sets'] = dict(
    src='rng', O='Vec<BoundSet>',
    acc=("exists|alts: Seq<Vec<BoundSet>>| #[trigger] sep_all::<&'s str, Vec<BoundSet>, (), %s, _, _>(range, logical_or, i, alts, rest) && o@ == flat_sets(alts)" % _E),
    rej='false',
    rewrites=[("|sets: Vec<Vec<BoundSet>>| sets.into_iter().flatten().collect()", "|sets: Vec<Vec<BoundSet>>| -> (r: Vec<BoundSet>) ensures r@ == flat_sets(sets@) { verif_std_flatten(sets) }", 'R6 `sets.into_iter().flatten().collect()` routed through a stub with std\'s contract (body = the original expression)')],
    entry='proof { assert forall|a: Seq<char>| (#[trigger] g_or(a)) is Some implies g_or(a).unwrap().len() < a.len() by { lemma_or_consumes(a); } }\n    ')
RTOP2_ORDER = ['range', 'bound_sets']
GRAMMAR_ORDER = GRAMMAR_ORDER + RTOP2_ORDER
STD_FLATTEN = """// std: Vec<Vec<T>>::into_iter().flatten().collect::<Vec<T>>() is the concatenation, in order (R6)
#[verifier::external_body]
pub fn verif_std_flatten(sets: Vec<Vec<BoundSet>>) -> (r: Vec<BoundSet>)
    ensures r@ == flat_sets(sets@),
{ sets.into_iter().flatten().collect() }
"""


GRAMMAR['range_set'] = dict(
    src='rng', O='Range',
    acc="exists|sets: Vec<BoundSet>| #[trigger] bound_sets_acc(i, sets, rest) && sets@.len() > 0 && o.0@ == sets@",
    rej="exists|sets: Vec<BoundSet>, r2: &'s str| #[trigger] bound_sets_acc(i, sets, r2) && sets@.len() == 0",
    rewrites=[("|sets| {", "|sets: Vec<BoundSet>| -> (r: Result<Range, SemverParseError<&'s str>>) ensures (r is Err) <==> sets@.len() == 0, r matches Ok(x) ==> x.0@ == sets@ {", 'closure parameter typed, contract')],
    entry='')
GRAMMAR_ORDER = GRAMMAR_ORDER + ['range_set']
RANGE_SET_SPEC = """// range_set_reads(i, o) is `exists rest. range_set_acc(i, o, rest)`, introduced by name with its two defining axioms (Verus does not find the
// witness of that existential in Range::parse's postcondition, although the instance is among its hypotheses)
pub uninterp spec fn range_set_reads<'s>(i: &'s str, o: Range) -> bool;
pub broadcast axiom fn def_range_set_reads_intro<'s>(i: &'s str, o: Range, rest: &'s str)
    ensures #[trigger] range_set_acc(i, o, rest) ==> range_set_reads(i, o);
pub broadcast axiom fn def_range_set_reads_elim<'s>(i: &'s str, o: Range)
    ensures #[trigger] range_set_reads(i, o) ==> exists|rest: &'s str| range_set_acc(i, o, rest);
"""

RPARSE_CONTRACT = """        ensures
            (r is Ok ==> range_set_reads(text, r->Ok_0)),  // @Range::parse#what-range_set-reads
            (r is Err ==> range_set_rej(text)),  // @Range::parse#fails-only-without-an-alternative"""

_STRS = ['*', '<=', '<', '>=', '>', ' <=', ' <', '||', '']
BS_FMT_HINT = 'proof { ' + ' '.join('reveal_strlit("%s");' % x for x in _STRS) + ' assert(""@ =~= Seq::<char>::empty()); }'
RANGE_FMT_HINT = 'broadcast use ax_vec_len_fits;\n        let ghost out0 = fmt_out(*f);\n        proof { reveal_strlit("||"); reveal_strlit(""); assert(""@ =~= Seq::<char>::empty()); }'
RANGE_FMT_LOOPS = ["$I == $IT.index@, self.0@.len() <= usize::MAX, rwf(*self), fmt_out(*f) == out0 + alts_text(self.0@, $I as int), \"\"@ == Seq::<char>::empty(),"]
