// ===================== spec: ranges as unions of intervals =====================
pub open spec fn swf(s: Seq<BoundSet>) -> bool { forall|i: int| 0 <= i < s.len() ==> bs_wf(#[trigger] s[i]) }
pub open spec fn rwf(r: Range) -> bool { swf(r.0@) }
pub open spec fn rsmall(r: Range) -> bool { ssmall(r.0@) }
/// some interval among the first n contains / is satisfied by k
pub open spec fn any_within(s: Seq<BoundSet>, n: int, k: VKey) -> bool { exists|i: int| 0 <= i < n && i < s.len() && within(#[trigger] s[i], k) }
pub open spec fn any_sat(s: Seq<BoundSet>, n: int, k: VKey) -> bool { exists|i: int| 0 <= i < n && i < s.len() && sat(#[trigger] s[i], k) }
pub open spec fn rwithin(r: Range, k: VKey) -> bool { any_within(r.0@, r.0@.len() as int, k) }
pub open spec fn rsat(r: Range, k: VKey) -> bool { any_sat(r.0@, r.0@.len() as int, k) }

pub broadcast proof fn lemma_any_within_step(s: Seq<BoundSet>, n: int, k: VKey)
    requires 0 <= n < s.len()
    ensures #[trigger] any_within(s, n + 1, k) == (any_within(s, n, k) || within(s[n], k))
{
    if any_within(s, n + 1, k) { let i = choose|i: int| 0 <= i < n + 1 && i < s.len() && within(#[trigger] s[i], k); if i < n { assert(any_within(s, n, k)); } }
    if any_within(s, n, k) { let i = choose|i: int| 0 <= i < n && i < s.len() && within(#[trigger] s[i], k); assert(0 <= i < n + 1); }
    if within(s[n], k) { assert(0 <= n < n + 1 && within(s[n], k)); }
}
pub broadcast proof fn lemma_any_within_zero(s: Seq<BoundSet>, k: VKey) ensures !#[trigger] any_within(s, 0, k) {}
pub broadcast proof fn lemma_any_within_push(s: Seq<BoundSet>, b: BoundSet, k: VKey)
    ensures #[trigger] any_within(s.push(b), s.len() as int + 1, k) == (any_within(s, s.len() as int, k) || within(b, k))
{
    let t = s.push(b);
    if any_within(t, t.len() as int, k) {
        let i = choose|i: int| 0 <= i < t.len() && i < t.len() && within(#[trigger] t[i], k);
        if i < s.len() { assert(t[i] == s[i]); assert(any_within(s, s.len() as int, k)); } else { assert(t[i] == b); }
    }
    if any_within(s, s.len() as int, k) { let i = choose|i: int| 0 <= i < s.len() && i < s.len() && within(#[trigger] s[i], k); assert(t[i] == s[i]); }
    if within(b, k) { assert(t[s.len() as int] == b); }
}
pub broadcast proof fn lemma_any_sat_step(s: Seq<BoundSet>, n: int, k: VKey)
    requires 0 <= n < s.len()
    ensures #[trigger] any_sat(s, n + 1, k) == (any_sat(s, n, k) || sat(s[n], k))
{
    if any_sat(s, n + 1, k) { let i = choose|i: int| 0 <= i < n + 1 && i < s.len() && sat(#[trigger] s[i], k); if i < n { assert(any_sat(s, n, k)); } }
    if any_sat(s, n, k) { let i = choose|i: int| 0 <= i < n && i < s.len() && sat(#[trigger] s[i], k); assert(0 <= i < n + 1); }
    if sat(s[n], k) { assert(0 <= n < n + 1 && sat(s[n], k)); }
}
pub broadcast proof fn lemma_any_sat_zero(s: Seq<BoundSet>, k: VKey) ensures !#[trigger] any_sat(s, 0, k) {}
pub broadcast group g_any { lemma_any_within_step, lemma_any_within_zero, lemma_any_within_push, lemma_any_sat_step, lemma_any_sat_zero }
pub broadcast proof fn lemma_any_within_concat(a: Seq<BoundSet>, b: Seq<BoundSet>, k: VKey)
    ensures #[trigger] any_within(a + b, (a + b).len() as int, k) == (any_within(a, a.len() as int, k) || any_within(b, b.len() as int, k))
{
    let t = a + b;
    if any_within(t, t.len() as int, k) {
        let i = choose|i: int| 0 <= i < t.len() && i < t.len() && within(#[trigger] t[i], k);
        if i < a.len() { assert(t[i] == a[i]); assert(any_within(a, a.len() as int, k)); } else { assert(t[i] == b[i - a.len()]); assert(any_within(b, b.len() as int, k)); }
    }
    if any_within(a, a.len() as int, k) { let i = choose|i: int| 0 <= i < a.len() && i < a.len() && within(#[trigger] a[i], k); assert(t[i] == a[i]); }
    if any_within(b, b.len() as int, k) { let i = choose|i: int| 0 <= i < b.len() && i < b.len() && within(#[trigger] b[i], k); assert(t[i + a.len()] == b[i]); }
}
pub proof fn lemma_ssmall_concat(a: Seq<BoundSet>, b: Seq<BoundSet>)
    requires ssmall(a), ssmall(b) ensures ssmall(a + b)
{
    assert forall|i: int| 0 <= i < (a + b).len() implies bs_small(#[trigger] (a + b)[i]) by { if i < a.len() { assert((a + b)[i] == a[i]); } else { assert((a + b)[i] == b[i - a.len()]); } }
}
pub proof fn lemma_swf_concat(a: Seq<BoundSet>, b: Seq<BoundSet>)
    requires swf(a), swf(b) ensures swf(a + b)
{
    assert forall|i: int| 0 <= i < (a + b).len() implies bs_wf(#[trigger] (a + b)[i]) by { if i < a.len() { assert((a + b)[i] == a[i]); } else { assert((a + b)[i] == b[i - a.len()]); } }
}
/// cut-form postcondition of BoundSet::difference
pub open spec fn bdiff_post(a: BoundSet, b: BoundSet, r: Option<Vec<BoundSet>>) -> bool {
    let cl = cut_of(*a.lower); let cu = cut_of(*a.upper); let ol = cut_of(*b.lower); let ou = cut_of(*b.upper);
    let overlap = boverlap(a, b);
    let left = cut_cmp(cl, ol) == Ordering::Less;
    let right = cut_cmp(ou, cu) == Ordering::Less;
    &&& (r is None) <==> (overlap && !left && !right)
    &&& r matches Some(vs) ==> {
        &&& swf(vs@)
        &&& (bs_small(a) && bs_small(b)) ==> ssmall(vs@)
        &&& !overlap ==> vs@.len() == 1 && vs@[0] == a
        // the part of `a` below `b` and the part above it, in either order (the order of alternatives means nothing)
        &&& overlap && left && right ==> vs@.len() == 2 && ((cut_of(*vs@[0].lower) == cl && cut_of(*vs@[0].upper) == ol && cut_of(*vs@[1].lower) == ou && cut_of(*vs@[1].upper) == cu)
                                                            || (cut_of(*vs@[1].lower) == cl && cut_of(*vs@[1].upper) == ol && cut_of(*vs@[0].lower) == ou && cut_of(*vs@[0].upper) == cu))
        &&& overlap && left && !right ==> vs@.len() == 1 && cut_of(*vs@[0].lower) == cl && cut_of(*vs@[0].upper) == ol
        &&& overlap && !left && right ==> vs@.len() == 1 && cut_of(*vs@[0].lower) == ou && cut_of(*vs@[0].upper) == cu
    }
}
/// pointwise meaning of the cut-form: the pieces are exactly `a` minus `b`
pub proof fn lemma_bdiff_pointwise(a: BoundSet, b: BoundSet, r: Option<Vec<BoundSet>>, v: VKey)
    requires bs_wf(a), bs_wf(b), bdiff_post(a, b, r)
    ensures r is None ==> (within(a, v) ==> within(b, v)),
            r matches Some(vs) ==> (any_within(vs@, vs@.len() as int, v) <==> (within(a, v) && !within(b, v))),
{
    let cl = cut_of(*a.lower); let cu = cut_of(*a.upper); let ol = cut_of(*b.lower); let ou = cut_of(*b.upper);
    lemma_cut4(cl, cu, ol, ou);
    lemma_cut_side(ol, v); lemma_cut_side(ou, v); lemma_cut_side(cl, v); lemma_cut_side(cu, v);
    // above(ol, v) == !below(ol, v): a cut splits the line
    if within(a, v) && !boverlap(a, b) { lemma_boverlap_none(a, b, v); }
    if cut_cmp(cl, ol) != Ordering::Less && above(cl, v) { lemma_cut_mono_above(ol, cl, v); }
    if cut_cmp(ou, cu) != Ordering::Less && below(cu, v) { lemma_cut_mono_below(cu, ou, v); }
    if below(ol, v) && above(ou, v) { }
    match r {
        None => {},
        Some(vs) => {
            let s = vs@;
            if s.len() == 1 { assert(any_within(s, 1, v) == within(s[0], v)) by { lemma_any_within_step(s, 0, v); lemma_any_within_zero(s, v); } }
            if s.len() == 2 { assert(any_within(s, 2, v) == (within(s[0], v) || within(s[1], v))) by { lemma_any_within_step(s, 1, v); lemma_any_within_step(s, 0, v); lemma_any_within_zero(s, v); } }
            // a version below b's lower cut is below b's upper cut, one above b's upper cut is above b's lower cut
            if boverlap(a, b) {
                if below(ol, v) { lemma_cut_mono_below(ol, cu, v); }
                if above(ou, v) { lemma_cut_mono_above(cl, ou, v); }
            }
            if below(ol, v) && above(cl, v) { lemma_cut_between(cl, ol, v); }
            if above(ou, v) && below(cu, v) { lemma_cut_between(ou, cu, v); }
            if below(ol, v) && below(cu, v) { }
        }
    }
}

// ===================== prerelease clauses of C07: which versions satisfy an intersection =====================
/// v lies within both intervals and at least one of them opts it in (for a release: within both)
pub open spec fn pair_sat(a: BoundSet, b: BoundSet, v: VKey) -> bool { within(a, v) && within(b, v) && (gate(a, v) || gate(b, v)) }
pub open spec fn all_pairs_sat(s: Seq<BoundSet>, t: Seq<BoundSet>, v: VKey) -> bool {
    exists|i: int, j: int| 0 <= i < s.len() && 0 <= j < t.len() && pair_sat(#[trigger] s[i], #[trigger] t[j], v)
}
/// pairs (i, j) visited so far by the nested loops: all of rows < n, and columns < k of row n
pub open spec fn any_pair_sat(s: Seq<BoundSet>, n: int, t: Seq<BoundSet>, k: int, v: VKey) -> bool {
    exists|i: int, j: int| 0 <= i <= n && i < s.len() && 0 <= j < t.len() && (i < n || j < k) && pair_sat(#[trigger] s[i], #[trigger] t[j], v)
}
pub proof fn lemma_any_pair_sat_zero(s: Seq<BoundSet>, t: Seq<BoundSet>, v: VKey) ensures !any_pair_sat(s, 0, t, 0, v) {}
pub proof fn lemma_any_pair_sat_step(s: Seq<BoundSet>, n: int, t: Seq<BoundSet>, k: int, v: VKey)
    requires 0 <= n < s.len(), 0 <= k < t.len()
    ensures any_pair_sat(s, n, t, k + 1, v) == (any_pair_sat(s, n, t, k, v) || pair_sat(s[n], t[k], v))
{
    if any_pair_sat(s, n, t, k + 1, v) {
        let (i, j) = choose|i: int, j: int| 0 <= i <= n && i < s.len() && 0 <= j < t.len() && (i < n || j < k + 1) && pair_sat(#[trigger] s[i], #[trigger] t[j], v);
        if i < n || j < k { assert(any_pair_sat(s, n, t, k, v)); } else { assert(i == n && j == k); }
    }
    if any_pair_sat(s, n, t, k, v) {
        let (i, j) = choose|i: int, j: int| 0 <= i <= n && i < s.len() && 0 <= j < t.len() && (i < n || j < k) && pair_sat(#[trigger] s[i], #[trigger] t[j], v);
        assert(0 <= i <= n && (i < n || j < k + 1) && pair_sat(s[i], t[j], v));
    }
    if pair_sat(s[n], t[k], v) { assert(0 <= n <= n && (n < n || k < k + 1) && pair_sat(s[n], t[k], v)); }
}
/// a finished row: (n, all columns) is (n + 1, no column)
pub proof fn lemma_any_pair_sat_row(s: Seq<BoundSet>, n: int, t: Seq<BoundSet>, v: VKey)
    requires 0 <= n < s.len()
    ensures any_pair_sat(s, n, t, t.len() as int, v) == any_pair_sat(s, n + 1, t, 0, v)
{
    if any_pair_sat(s, n, t, t.len() as int, v) {
        let (i, j) = choose|i: int, j: int| 0 <= i <= n && i < s.len() && 0 <= j < t.len() && (i < n || j < t.len()) && pair_sat(#[trigger] s[i], #[trigger] t[j], v);
        assert(0 <= i <= n + 1 && (i < n + 1 || j < 0) && pair_sat(s[i], t[j], v));
    }
    if any_pair_sat(s, n + 1, t, 0, v) {
        let (i, j) = choose|i: int, j: int| 0 <= i <= n + 1 && i < s.len() && 0 <= j < t.len() && (i < n + 1 || j < 0) && pair_sat(#[trigger] s[i], #[trigger] t[j], v);
        assert(0 <= i <= n && (i < n || j < t.len()) && pair_sat(s[i], t[j], v));
    }
}
pub proof fn lemma_any_pair_sat_all(s: Seq<BoundSet>, t: Seq<BoundSet>, v: VKey)
    ensures any_pair_sat(s, s.len() as int, t, 0, v) == all_pairs_sat(s, t, v)
{
    if any_pair_sat(s, s.len() as int, t, 0, v) {
        let (i, j) = choose|i: int, j: int| 0 <= i <= s.len() && i < s.len() && 0 <= j < t.len() && (i < s.len() || j < 0) && pair_sat(#[trigger] s[i], #[trigger] t[j], v);
        assert(pair_sat(s[i], t[j], v));
    }
    if all_pairs_sat(s, t, v) {
        let (i, j) = choose|i: int, j: int| 0 <= i < s.len() && 0 <= j < t.len() && pair_sat(#[trigger] s[i], #[trigger] t[j], v);
        assert(0 <= i <= s.len() && (i < s.len() || j < 0) && pair_sat(s[i], t[j], v));
    }
}
pub proof fn lemma_any_sat_push(s: Seq<BoundSet>, b: BoundSet, k: VKey)
    ensures any_sat(s.push(b), s.len() as int + 1, k) == (any_sat(s, s.len() as int, k) || sat(b, k))
{
    let t = s.push(b);
    if any_sat(t, t.len() as int, k) {
        let i = choose|i: int| 0 <= i < t.len() && i < t.len() && sat(#[trigger] t[i], k);
        if i < s.len() { assert(t[i] == s[i]); assert(any_sat(s, s.len() as int, k)); } else { assert(t[i] == b); }
    }
    if any_sat(s, s.len() as int, k) { let i = choose|i: int| 0 <= i < s.len() && i < s.len() && sat(#[trigger] s[i], k); assert(t[i] == s[i]); }
    if sat(b, k) { assert(t[s.len() as int] == b); }
}
/// nothing remains of `a` after removing `b` (cut form)
pub open spec fn bdiff_none(a: BoundSet, b: BoundSet) -> bool {
    boverlap(a, b) && cut_cmp(cut_of(*a.lower), cut_of(*b.lower)) != Ordering::Less && cut_cmp(cut_of(*b.upper), cut_of(*a.upper)) != Ordering::Less
}

// ===================== relations = the postconditions of the Range operations (taken from the property statements) =====================
pub open spec fn roverlap(a: Range, b: Range) -> bool {
    exists|i: int, j: int| 0 <= i < a.0@.len() && 0 <= j < b.0@.len() && boverlap(#[trigger] a.0@[i], #[trigger] b.0@[j])
}
pub open spec fn rallows_all(a: Range, b: Range) -> bool {
    exists|i: int, j: int| 0 <= i < a.0@.len() && 0 <= j < b.0@.len() && ballows_all(#[trigger] a.0@[i], #[trigger] b.0@[j])
}
/// C07 (bounds part) + C09 link: the result is exactly the pointwise intersection; `None` iff no pair of alternatives overlaps
pub open spec fn rinter_post(a: Range, b: Range, r: Option<Range>) -> bool {
    &&& (r is Some) <==> roverlap(a, b)
    &&& r matches Some(x) ==> rwf(x) && x.0@.len() > 0 && forall|v: VKey| #![trigger rwithin(x, v)] rwithin(x, v) <==> rwithin(a, v) && rwithin(b, v)
    &&& r is None ==> forall|v: VKey| #![trigger rwithin(a, v), rwithin(b, v)] !(rwithin(a, v) && rwithin(b, v))
    &&& (rsmall(a) && rsmall(b)) ==> (r matches Some(x) ==> rsmall(x))
    // prerelease clauses: the result is satisfied by v exactly when v lies within an alternative of each side and one of the two opts it in
    &&& r matches Some(x) ==> forall|v: VKey| #![trigger rsat(x, v)] rsat(x, v) <==> any_pair_sat(a.0@, a.0@.len() as int, b.0@, 0, v)
}
/// C08: the result is exactly the pointwise difference; `None` only when nothing of `a` remains
pub open spec fn rdiff_post(a: Range, b: Range, r: Option<Range>) -> bool {
    &&& r matches Some(x) ==> rwf(x) && x.0@.len() > 0 && forall|v: VKey| #![trigger rwithin(x, v)] rwithin(x, v) <==> rwithin(a, v) && !rwithin(b, v)
    &&& r is None ==> forall|v: VKey| #![trigger rwithin(a, v)] rwithin(a, v) ==> rwithin(b, v)
    &&& (rsmall(a) && rsmall(b)) ==> (r matches Some(x) ==> rsmall(x))
    // single alternatives on both sides: `None` exactly when the cuts say nothing remains (C10 link)
    &&& a.0@.len() == 1 && b.0@.len() == 1 ==> ((r is None) <==> bdiff_none(a.0@[0], b.0@[0]))
}
