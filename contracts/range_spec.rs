// ===================== spec: ranges as unions of intervals =====================
pub open spec fn swf(s: Seq<BoundSet>) -> bool { forall|i: int| 0 <= i < s.len() ==> bs_wf(#[trigger] s[i]) }
pub open spec fn rwf(r: Range) -> bool { swf(r.0@) }
/// some interval among the first n contains / is satisfied by k
pub open spec fn any_within(s: Seq<BoundSet>, n: int, k: VKey) -> bool { exists|i: int| 0 <= i < n && i < s.len() && within(#[trigger] s[i], k) }
pub open spec fn any_sat(s: Seq<BoundSet>, n: int, k: VKey) -> bool { exists|i: int| 0 <= i < n && i < s.len() && sat(#[trigger] s[i], k) }
pub open spec fn rwithin(r: Range, k: VKey) -> bool { any_within(r.0@, r.0@.len() as int, k) }
pub open spec fn rsat(r: Range, k: VKey) -> bool { any_sat(r.0@, r.0@.len() as int, k) }

pub broadcast proof fn lemma_any_within_step(s: Seq<BoundSet>, n: int, k: VKey)
    requires 0 <= n < s.len()
    ensures #[trigger] any_within(s, n + 1, k) == (any_within(s, n, k) || within(s[n], k))
{
    if any_within(s, n + 1, k) { let i = choose|i: int| 0 <= i < n + 1 && i < s.len() && within(#[trigger] s[i], k); if i < n { assert(any_within(s, n, k)); } }
    if any_within(s, n, k) { let i = choose|i: int| 0 <= i < n && i < s.len() && within(#[trigger] s[i], k); assert(0 <= i < n + 1); }
    if within(s[n], k) { assert(0 <= n < n + 1 && within(s[n], k)); }
}
pub broadcast proof fn lemma_any_within_zero(s: Seq<BoundSet>, k: VKey) ensures !#[trigger] any_within(s, 0, k) {}
pub broadcast proof fn lemma_any_within_push(s: Seq<BoundSet>, b: BoundSet, k: VKey)
    ensures #[trigger] any_within(s.push(b), s.len() as int + 1, k) == (any_within(s, s.len() as int, k) || within(b, k))
{
    let t = s.push(b);
    if any_within(t, t.len() as int, k) {
        let i = choose|i: int| 0 <= i < t.len() && i < t.len() && within(#[trigger] t[i], k);
        if i < s.len() { assert(t[i] == s[i]); assert(any_within(s, s.len() as int, k)); } else { assert(t[i] == b); }
    }
    if any_within(s, s.len() as int, k) { let i = choose|i: int| 0 <= i < s.len() && i < s.len() && within(#[trigger] s[i], k); assert(t[i] == s[i]); }
    if within(b, k) { assert(t[s.len() as int] == b); }
}
pub broadcast proof fn lemma_any_sat_step(s: Seq<BoundSet>, n: int, k: VKey)
    requires 0 <= n < s.len()
    ensures #[trigger] any_sat(s, n + 1, k) == (any_sat(s, n, k) || sat(s[n], k))
{
    if any_sat(s, n + 1, k) { let i = choose|i: int| 0 <= i < n + 1 && i < s.len() && sat(#[trigger] s[i], k); if i < n { assert(any_sat(s, n, k)); } }
    if any_sat(s, n, k) { let i = choose|i: int| 0 <= i < n && i < s.len() && sat(#[trigger] s[i], k); assert(0 <= i < n + 1); }
    if sat(s[n], k) { assert(0 <= n < n + 1 && sat(s[n], k)); }
}
pub broadcast proof fn lemma_any_sat_zero(s: Seq<BoundSet>, k: VKey) ensures !#[trigger] any_sat(s, 0, k) {}
pub broadcast group g_any { lemma_any_within_step, lemma_any_within_zero, lemma_any_within_push, lemma_any_sat_step, lemma_any_sat_zero }
pub broadcast proof fn lemma_any_within_concat(a: Seq<BoundSet>, b: Seq<BoundSet>, k: VKey)
    ensures #[trigger] any_within(a + b, (a + b).len() as int, k) == (any_within(a, a.len() as int, k) || any_within(b, b.len() as int, k))
{
    let t = a + b;
    if any_within(t, t.len() as int, k) {
        let i = choose|i: int| 0 <= i < t.len() && i < t.len() && within(#[trigger] t[i], k);
        if i < a.len() { assert(t[i] == a[i]); assert(any_within(a, a.len() as int, k)); } else { assert(t[i] == b[i - a.len()]); assert(any_within(b, b.len() as int, k)); }
    }
    if any_within(a, a.len() as int, k) { let i = choose|i: int| 0 <= i < a.len() && i < a.len() && within(#[trigger] a[i], k); assert(t[i] == a[i]); }
    if any_within(b, b.len() as int, k) { let i = choose|i: int| 0 <= i < b.len() && i < b.len() && within(#[trigger] b[i], k); assert(t[i + a.len()] == b[i]); }
}
pub proof fn lemma_swf_concat(a: Seq<BoundSet>, b: Seq<BoundSet>)
    requires swf(a), swf(b) ensures swf(a + b)
{
    assert forall|i: int| 0 <= i < (a + b).len() implies bs_wf(#[trigger] (a + b)[i]) by { if i < a.len() { assert((a + b)[i] == a[i]); } else { assert((a + b)[i] == b[i - a.len()]); } }
}
/// cut-form postcondition of BoundSet::difference
pub open spec fn bdiff_post(a: BoundSet, b: BoundSet, r: Option<Vec<BoundSet>>) -> bool {
    let cl = cut_of(*a.lower); let cu = cut_of(*a.upper); let ol = cut_of(*b.lower); let ou = cut_of(*b.upper);
    let overlap = boverlap(a, b);
    let left = cut_cmp(cl, ol) == Ordering::Less;
    let right = cut_cmp(ou, cu) == Ordering::Less;
    &&& (r is None) <==> (overlap && !left && !right)
    &&& r matches Some(vs) ==> {
        &&& swf(vs@)
        &&& !overlap ==> vs@.len() == 1 && vs@[0] == a
        &&& overlap && left && right ==> vs@.len() == 2 && cut_of(*vs@[0].lower) == cl && cut_of(*vs@[0].upper) == ol && cut_of(*vs@[1].lower) == ou && cut_of(*vs@[1].upper) == cu
        &&& overlap && left && !right ==> vs@.len() == 1 && cut_of(*vs@[0].lower) == cl && cut_of(*vs@[0].upper) == ol
        &&& overlap && !left && right ==> vs@.len() == 1 && cut_of(*vs@[0].lower) == ou && cut_of(*vs@[0].upper) == cu
    }
}
/// pointwise meaning of the cut-form: the pieces are exactly `a` minus `b`
pub proof fn lemma_bdiff_pointwise(a: BoundSet, b: BoundSet, r: Option<Vec<BoundSet>>, v: VKey)
    requires bs_wf(a), bs_wf(b), bdiff_post(a, b, r)
    ensures r is None ==> (within(a, v) ==> within(b, v)),
            r matches Some(vs) ==> (any_within(vs@, vs@.len() as int, v) <==> (within(a, v) && !within(b, v))),
{
    let cl = cut_of(*a.lower); let cu = cut_of(*a.upper); let ol = cut_of(*b.lower); let ou = cut_of(*b.upper);
    lemma_cut4(cl, cu, ol, ou);
    lemma_cut_side(ol, v); lemma_cut_side(ou, v); lemma_cut_side(cl, v); lemma_cut_side(cu, v);
    // above(ol, v) == !below(ol, v): a cut splits the line
    if within(a, v) && !boverlap(a, b) { lemma_boverlap_none(a, b, v); }
    if cut_cmp(cl, ol) != Ordering::Less && above(cl, v) { lemma_cut_mono_above(ol, cl, v); }
    if cut_cmp(ou, cu) != Ordering::Less && below(cu, v) { lemma_cut_mono_below(cu, ou, v); }
    if below(ol, v) && above(ou, v) { }
    match r {
        None => {},
        Some(vs) => {
            let s = vs@;
            if s.len() == 1 { assert(any_within(s, 1, v) == within(s[0], v)) by { lemma_any_within_step(s, 0, v); lemma_any_within_zero(s, v); } }
            if s.len() == 2 { assert(any_within(s, 2, v) == (within(s[0], v) || within(s[1], v))) by { lemma_any_within_step(s, 1, v); lemma_any_within_step(s, 0, v); lemma_any_within_zero(s, v); } }
            // a version below b's lower cut is below b's upper cut, one above b's upper cut is above b's lower cut
            if boverlap(a, b) {
                if below(ol, v) { lemma_cut_mono_below(ol, cu, v); }
                if above(ou, v) { lemma_cut_mono_above(cl, ou, v); }
            }
            if below(ol, v) && above(cl, v) { lemma_cut_between(cl, ol, v); }
            if above(ou, v) && below(cu, v) { lemma_cut_between(ou, cu, v); }
            if below(ol, v) && below(cu, v) { }
        }
    }
}

// ===================== relations = the postconditions of the Range operations (taken from the property statements) =====================
pub open spec fn roverlap(a: Range, b: Range) -> bool {
    exists|i: int, j: int| 0 <= i < a.0@.len() && 0 <= j < b.0@.len() && boverlap(#[trigger] a.0@[i], #[trigger] b.0@[j])
}
pub open spec fn rallows_all(a: Range, b: Range) -> bool {
    exists|i: int, j: int| 0 <= i < a.0@.len() && 0 <= j < b.0@.len() && ballows_all(#[trigger] a.0@[i], #[trigger] b.0@[j])
}
/// C07 (bounds part) + C09 link: the result is exactly the pointwise intersection; `None` iff no pair of alternatives overlaps
pub open spec fn rinter_post(a: Range, b: Range, r: Option<Range>) -> bool {
    &&& (r is Some) <==> roverlap(a, b)
    &&& r matches Some(x) ==> rwf(x) && x.0@.len() > 0 && forall|v: VKey| #![trigger rwithin(x, v)] rwithin(x, v) <==> rwithin(a, v) && rwithin(b, v)
    &&& r is None ==> forall|v: VKey| #![trigger rwithin(a, v), rwithin(b, v)] !(rwithin(a, v) && rwithin(b, v))
}
/// C08: the result is exactly the pointwise difference; `None` only when nothing of `a` remains
pub open spec fn rdiff_post(a: Range, b: Range, r: Option<Range>) -> bool {
    &&& r matches Some(x) ==> rwf(x) && x.0@.len() > 0 && forall|v: VKey| #![trigger rwithin(x, v)] rwithin(x, v) <==> rwithin(a, v) && !rwithin(b, v)
    &&& r is None ==> forall|v: VKey| #![trigger rwithin(a, v)] rwithin(a, v) ==> rwithin(b, v)
}
