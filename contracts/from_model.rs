// ===================== tuple conversions (C18) =====================
impl FromSpecImpl<(i32, i32, i32)> for Version { open spec fn obeys_from_spec() -> bool { false } open spec fn from_spec(v: (i32, i32, i32)) -> Self { arbitrary() } }
impl FromSpecImpl<(i32, i32, i32, i32)> for Version { open spec fn obeys_from_spec() -> bool { false } open spec fn from_spec(v: (i32, i32, i32, i32)) -> Self { arbitrary() } }
// the signed impls carry `debug_assert!(x >= 0)`; a trait method cannot carry `requires`, so their contract is stated here
// as external_body and PROVED by Kani over the full i32 domain (check C18, harness from_i32_*); used by the integer
// literals in the desugaring code
impl ::std::convert::From<(i32, i32, i32)> for Version {
    #[verifier::external_body]
    fn from(arg: (i32, i32, i32)) -> (r: Self)
        ensures arg.0 >= 0 && arg.1 >= 0 && arg.2 >= 0 ==> key(r) == k3(arg.0 as int, arg.1 as int, arg.2 as int) && r.build@.len() == 0
    { unimplemented!() }
}
impl ::std::convert::From<(i32, i32, i32, i32)> for Version {
    #[verifier::external_body]
    fn from(arg: (i32, i32, i32, i32)) -> (r: Self)
        ensures arg.0 >= 0 && arg.1 >= 0 && arg.2 >= 0 && arg.3 >= 0 ==> key(r) == k4(arg.0 as int, arg.1 as int, arg.2 as int, seq![Identifier::Numeric(arg.3 as u64)]) && r.build@.len() == 0
    { unimplemented!() }
}
impl FromSpecImpl<(u64, u64, u64)> for Version { open spec fn obeys_from_spec() -> bool { false } open spec fn from_spec(v: (u64, u64, u64)) -> Self { arbitrary() } }
impl FromSpecImpl<(u64, u64, u64, u64)> for Version { open spec fn obeys_from_spec() -> bool { false } open spec fn from_spec(v: (u64, u64, u64, u64)) -> Self { arbitrary() } }
