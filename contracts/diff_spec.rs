// ===================== spec: node-semver 7.6.2 functions/diff.js =====================
pub open spec fn diff_spec(a: VKey, b: VKey) -> Option<VersionDiff> {
    let c = kcmp(a, b);
    if c == Ordering::Equal { None } else {
        let hi = if c == Ordering::Greater { a } else { b };
        let lo = if c == Ordering::Greater { b } else { a };
        let hi_pre = hi.pre.len() > 0;
        let lo_pre = lo.pre.len() > 0;
        if lo_pre && !hi_pre {
            // going from a prerelease to a release: the documented special cases
            if lo.patch == 0 && lo.minor == 0 { Some(VersionDiff::Major) }
            else if hi.patch != 0 { Some(VersionDiff::Patch) }
            else if hi.minor != 0 { Some(VersionDiff::Minor) }
            else { Some(VersionDiff::Major) }
        } else if a.major != b.major { Some(if hi_pre { VersionDiff::PreMajor } else { VersionDiff::Major }) }
        else if a.minor != b.minor { Some(if hi_pre { VersionDiff::PreMinor } else { VersionDiff::Minor }) }
        else if a.patch != b.patch { Some(if hi_pre { VersionDiff::PrePatch } else { VersionDiff::Patch }) }
        else { Some(VersionDiff::PreRelease) }
    }
}
pub proof fn lemma_diff_symmetric(a: VKey, b: VKey) ensures diff_spec(a, b) == diff_spec(b, a)
{ broadcast use group_k_order; }
pub proof fn lemma_diff_none_iff_equal(a: VKey, b: VKey) ensures diff_spec(a, b) is None <==> kcmp(a, b) == Ordering::Equal
{}
/// `prerelease` exactly when only the tags differ and both are prereleases
pub proof fn lemma_diff_prerelease(a: VKey, b: VKey)
    ensures diff_spec(a, b) == Some(VersionDiff::PreRelease) <==> (same_tuple(a, b) && a.pre.len() > 0 && b.pre.len() > 0 && kcmp(a, b) != Ordering::Equal)
{ broadcast use group_k_order; }
