// ===================== proof side: `<=M` / `<=M.m` are written as `<=M.MAX.MAX` / `<=M.m.MAX` =====================
pub proof fn lemma_le_major_equiv(mj: int, v: VKey)
    requires wfk(v), 0 <= mj <= MAX_SAFE_INTEGER
    ensures below(Cut::At(k3(mj, MAX_SAFE_INTEGER as int, MAX_SAFE_INTEGER as int), true), v) == below(Cut::At(k4(mj + 1, 0, 0, pre0()), false), v),
            // no prerelease opt-in on either side for a version under the bound
            below(Cut::At(k4(mj + 1, 0, 0, pre0()), false), v) ==> !same_tuple(k4(mj + 1, 0, 0, pre0()), v),
{
    if v.pre.len() > 0 { lemma_least_pre0(v.pre); lemma_pre_flip(v.pre, pre0()); }
}
pub proof fn lemma_le_minor_equiv(mj: int, mn: int, v: VKey)
    requires wfk(v), 0 <= mj <= MAX_SAFE_INTEGER, 0 <= mn <= MAX_SAFE_INTEGER
    ensures below(Cut::At(k3(mj, mn, MAX_SAFE_INTEGER as int), true), v) == below(Cut::At(k4(mj, mn + 1, 0, pre0()), false), v),
            below(Cut::At(k4(mj, mn + 1, 0, pre0()), false), v) ==> !same_tuple(k4(mj, mn + 1, 0, pre0()), v),
{
    if v.pre.len() > 0 { lemma_least_pre0(v.pre); lemma_pre_flip(v.pre, pre0()); }
}
