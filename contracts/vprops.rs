// ===================== C05, clause by clause, over the reference grammar =====================
// Version::parse's contract (m_vg_parse): Ok(v) exactly when the text is not too long and ref_parse(text@) == Some(s) with
// version_is(v, s); Err otherwise.  The lemmas below say what ref_parse / g_version mean in the words of the property.

// "the entire input": whatever follows the version is blanks; nothing is silently dropped
pub proof fn lemma_c05_whole_input(s: Seq<char>)
    requires ref_parse(s) is Some,
    ensures
        g_version(s) matches Some((v, rest)) && ref_parse(s) == Some(v) && all_blank(rest),
        // the unread rest is a suffix of the input
        exists|n: int| 0 <= n <= s.len() && g_version(s).unwrap().1 == s.skip(n),
{
    lemma_version_rest_is_suffix(s);
}

// every reader returns a suffix of what it was given
pub open spec fn is_suffix(r: Seq<char>, s: Seq<char>) -> bool { exists|n: int| 0 <= n <= s.len() && r == s.skip(n) }
pub proof fn lemma_suffix_trans(a: Seq<char>, b: Seq<char>, c: Seq<char>)
    requires is_suffix(a, b), is_suffix(b, c),
    ensures is_suffix(a, c),
{
    let n = choose|n: int| 0 <= n <= b.len() && a == b.skip(n);
    let m = choose|m: int| 0 <= m <= c.len() && b == c.skip(m);
    assert(c.skip(m).skip(n) =~= c.skip(m + n));
}
pub proof fn lemma_suffix_refl(a: Seq<char>)
    ensures is_suffix(a, a),
{
    assert(a.skip(0) =~= a);
}
pub proof fn lemma_number_suffix(s: Seq<char>)
    ensures g_number(s) matches Some((n, r)) ==> is_suffix(r, s) && r.len() < s.len(),
{
    lemma_span_le(s, |c: char| dg_char(c));
}
pub proof fn lemma_eat_suffix(s: Seq<char>, c: char)
    ensures eat(s, c) matches Some(r) ==> is_suffix(r, s),
{
}
pub proof fn lemma_core_suffix(s: Seq<char>)
    ensures g_core(s) matches Some((n, r)) ==> is_suffix(r, s),
{
    if let Some((a, r1)) = g_number(s) {
        lemma_number_suffix(s);
        if let Some(r2) = eat(r1, '.') {
            lemma_eat_suffix(r1, '.');
            lemma_suffix_trans(r2, r1, s);
            if let Some((b, r3)) = g_number(r2) {
                lemma_number_suffix(r2);
                lemma_suffix_trans(r3, r2, s);
                if let Some(r4) = eat(r3, '.') {
                    lemma_eat_suffix(r3, '.');
                    lemma_suffix_trans(r4, r3, s);
                    if let Some((c, r5)) = g_number(r4) {
                        lemma_number_suffix(r4);
                        lemma_suffix_trans(r5, r4, s);
                    }
                }
            }
        }
    }
}
pub proof fn lemma_ident_suffix(s: Seq<char>)
    ensures g_ident(s) matches Some((x, r)) ==> is_suffix(r, s) && r.len() < s.len(),
{
    lemma_span_le(s, |c: char| id_char(c));
}
pub proof fn lemma_idents_more_suffix(s: Seq<char>)
    ensures is_suffix(g_idents_more(s).1, s),
    decreases s.len(),
{
    lemma_suffix_refl(s);
    if let Some(r1) = eat(s, '.') {
        lemma_eat_suffix(s, '.');
        if let Some((id, r2)) = g_ident(r1) {
            lemma_ident_suffix(r1);
            lemma_suffix_trans(r2, r1, s);
            if r2.len() < s.len() {
                lemma_idents_more_suffix(r2);
                lemma_suffix_trans(g_idents_more(r2).1, r2, s);
            }
        }
    }
}
pub proof fn lemma_idents_suffix(s: Seq<char>)
    ensures g_idents(s) matches Some((x, r)) ==> is_suffix(r, s),
{
    if let Some((id, r)) = g_ident(s) {
        lemma_ident_suffix(s);
        lemma_idents_more_suffix(r);
        lemma_suffix_trans(g_idents_more(r).1, r, s);
    }
}
pub proof fn lemma_pre_suffix(s: Seq<char>)
    ensures g_pre(s) matches Some((x, r)) ==> is_suffix(r, s),
{
    match eat(s, '-') {
        Some(r) => { lemma_eat_suffix(s, '-'); lemma_idents_suffix(r); if let Some((x, r2)) = g_idents(r) { lemma_suffix_trans(r2, r, s); } },
        None => { lemma_idents_suffix(s); },
    }
}
pub proof fn lemma_build_suffix(s: Seq<char>)
    ensures g_build(s) matches Some((x, r)) ==> is_suffix(r, s),
{
    if let Some(r) = eat(s, '+') { lemma_eat_suffix(s, '+'); lemma_idents_suffix(r); if let Some((x, r2)) = g_idents(r) { lemma_suffix_trans(r2, r, s); } }
}
pub proof fn lemma_extras_suffix(s: Seq<char>)
    ensures is_suffix(g_extras(s).1, s),
{
    lemma_suffix_refl(s);
    lemma_pre_suffix(s);
    lemma_build_suffix(s);
    if let Some((p, r)) = g_pre(s) {
        lemma_build_suffix(r);
        if let Some((b, r2)) = g_build(r) { lemma_suffix_trans(r2, r, s); }
    }
}
pub proof fn lemma_version_rest_is_suffix(s: Seq<char>)
    ensures g_version(s) matches Some((v, r)) ==> is_suffix(r, s),
{
    let s1 = skip_v(s);
    let s2 = skip_ws(s1);
    lemma_span_le(s1, |c: char| ws_char(c));
    lemma_suffix_refl(s);
    assert(is_suffix(s1, s));
    assert(is_suffix(s2, s1));
    lemma_suffix_trans(s2, s1, s);
    lemma_core_suffix(s2);
    if let Some((abc, r)) = g_core(s2) {
        lemma_suffix_trans(r, s2, s);
        lemma_extras_suffix(r);
        lemma_suffix_trans(g_extras(r).1, r, s);
    }
}

// "decimal components": the value of a component is the decimal value of its digits; leading zeros do not change it
pub proof fn lemma_dec_val_leading_zero(t: Seq<char>)
    ensures dec_val(seq!['0'] + t) == dec_val(t),
    decreases t.len(),
{
    let z = seq!['0'] + t;
    if t.len() == 0 {
        assert(z.drop_last() =~= Seq::<char>::empty());
        assert(dec_val(z.drop_last()) == 0);
    } else {
        assert(z.drop_last() =~= seq!['0'] + t.drop_last());
        lemma_dec_val_leading_zero(t.drop_last());
        assert(z.last() == t.last());
    }
}
// "the returned fields are exactly the denoted numbers and identifiers": a component is read as dec_val of the longest digit prefix, never
// above MAX_SAFE_INTEGER; an identifier is the longest run over [0-9A-Za-z-], numeric exactly when it is all digits and fits u64
pub proof fn lemma_c05_fields(s: Seq<char>)
    ensures
        g_number(s) matches Some((n, r)) ==> n <= MAX_SAFE_INTEGER && dg_span(s) >= 1 && n == dec_val(s.take(dg_span(s))) && all_digits(s.take(dg_span(s))) && (r.len() > 0 ==> !dg_char(r[0])),
        g_ident(s) matches Some((x, r)) ==> all_id_chars(s.take(span(s, |c: char| id_char(c)) as int)) && (r.len() > 0 ==> !id_char(r[0]))
            && (x matches ISpec::Num(n) ==> all_digits(s.take(span(s, |c: char| id_char(c)) as int)) && n == dec_val(s.take(span(s, |c: char| id_char(c)) as int))),
{
    lemma_span_props(s, |c: char| dg_char(c));
    lemma_span_props(s, |c: char| id_char(c));
}
