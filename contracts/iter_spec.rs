// ===================== A8: std contract for `slice.iter().filter(p).max()` / `.min()` (Skolemised) =====================
pub uninterp spec fn answers<F>(s: Seq<Version>, f: F) -> Seq<bool>;
/// r is the last maximal element (by the lawful order `ver_cmp`) among the selected ones; None iff none is selected
pub open spec fn is_filter_max(s: Seq<Version>, bs: Seq<bool>, r: Option<&Version>) -> bool {
    &&& bs.len() == s.len()
    &&& (r matches Some(m) ==> exists|k: int| 0 <= k < s.len() && *m == #[trigger] s[k] && bs[k]
            && (forall|j: int| 0 <= j < s.len() && bs[j] ==> ver_cmp(#[trigger] s[j], *m) != Ordering::Greater))
    &&& (r is None ==> forall|j: int| #![trigger s[j]] 0 <= j < s.len() ==> !bs[j])
}
pub open spec fn is_filter_min(s: Seq<Version>, bs: Seq<bool>, r: Option<&Version>) -> bool {
    &&& bs.len() == s.len()
    &&& (r matches Some(m) ==> exists|k: int| 0 <= k < s.len() && *m == #[trigger] s[k] && bs[k]
            && (forall|j: int| 0 <= j < s.len() && bs[j] ==> ver_cmp(#[trigger] s[j], *m) != Ordering::Less))
    &&& (r is None ==> forall|j: int| #![trigger s[j]] 0 <= j < s.len() ==> !bs[j])
}
#[verifier::external_body]
pub fn verif_std_filter_max<'v, F: Fn(&&'v Version) -> bool>(versions: &'v [Version], f: F) -> (r: Option<&'v Version>)
    requires forall|i: int| 0 <= i < versions@.len() ==> call_requires(f, (&&versions@[i],)),
    ensures is_filter_max(versions@, answers(versions@, f), r),
            forall|j: int| 0 <= j < versions@.len() ==> call_ensures(f, (&&#[trigger] versions@[j],), answers(versions@, f)[j]),
{ versions.iter().filter(f).max() }
#[verifier::external_body]
pub fn verif_std_filter_min<'v, F: Fn(&&'v Version) -> bool>(versions: &'v [Version], f: F) -> (r: Option<&'v Version>)
    requires forall|i: int| 0 <= i < versions@.len() ==> call_requires(f, (&&versions@[i],)),
    ensures is_filter_min(versions@, answers(versions@, f), r),
            forall|j: int| 0 <= j < versions@.len() ==> call_ensures(f, (&&#[trigger] versions@[j],), answers(versions@, f)[j]),
{ versions.iter().filter(f).min() }
